#!/venv/bin/python
"""Reach of the checks inside paramiko: runs N simulated runs of each check in this process under coverage.py
(sys.monitoring core, which does not collide with the simulator's own settrace / monitoring tool) and writes
evidence/reach.json: per paramiko module the executed share of lines and the functions no check entered.
A diagnostic for the builder of the checks (which code behind a property is never driven?), not a check itself.
usage: tools/reach.py [N per check] [check ids...]"""
import ast, importlib, json, os, sys, time
os.environ.setdefault("COVERAGE_CORE", "sysmon")
V = "/verif"
REPO = os.environ.get("VERIF_REPO", "/repo")
sys.path.insert(0, V)
sys.path.insert(0, REPO)
import coverage

args = sys.argv[1:]
n = int(args[0]) if args and args[0].isdigit() else 30
ids = [a for a in args if not a.isdigit()]
cov = coverage.Coverage(data_file=None, include=[REPO + "/paramiko/*"], concurrency=["thread"])
cov.start()
from sim import runner

per_check = {}
allids = sorted(f[:-3].upper() for f in os.listdir(V + "/checks") if f.startswith("c") and f.endswith(".py"))
for pid in (ids or allids):
    mod = importlib.import_module("checks." + pid.lower())
    t0 = time.time()
    st = {}
    for i in range(n):
        r = runner.run_one(mod, i * 7919 + 1)
        st[r["status"]] = st.get(r["status"], 0) + 1
    per_check[pid] = {"runs": n, "status": st, "seconds": round(time.time() - t0, 1)}
    print(pid, per_check[pid], flush=True)
cov.stop()
data = cov.get_data()
out = {"runs_per_check": n, "checks": per_check, "modules": {}}
for f in sorted(data.measured_files()):
    if "/paramiko/" not in f:
        continue
    executed = set(data.lines(f) or [])
    try:
        _, stmts, _, missing, _ = cov.analysis2(f)
    except Exception:
        continue
    tree = ast.parse(open(f).read())
    never = []
    for node in ast.walk(tree):
        if isinstance(node, (ast.FunctionDef, ast.AsyncFunctionDef)):
            body = [x.lineno for b in node.body for x in ast.walk(b) if hasattr(x, "lineno")]
            if body and not (executed & set(body)):
                never.append("%s:%d" % (node.name, node.lineno))
    out["modules"][os.path.basename(f)] = {"statements": len(stmts), "executed": len(stmts) - len(missing),
                                           "share": round(1 - len(missing) / max(1, len(stmts)), 3),
                                           "functions_never_entered": sorted(never)}
json.dump(out, open(V + "/evidence/reach.json", "w"), indent=1, sort_keys=True)
for m, d in sorted(out["modules"].items(), key=lambda kv: kv[1]["share"]):
    print("%-28s %5d stmts  %5.1f%%  never entered: %d" % (m, d["statements"], 100 * d["share"], len(d["functions_never_entered"])))
