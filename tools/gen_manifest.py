#!/venv/bin/python
"""Generates /verif/MANIFEST.json from the table below (single source of truth)."""
import json, os, sys
HERE = os.path.dirname(os.path.dirname(os.path.abspath(__file__)))

NA = {
 "C33": "SFTPAttributes._pack/_unpack is a pure encode/decode pair; no stream, peer, clock or thread in the statement, so a simulator adds nothing over input generation",
 "C34": "canonicalize is a pure string function; nothing to schedule or fault",
 "C35": "sign/verify are pure functions of (key, data, signature bytes); no I/O, time or concurrency in the statement",
 "C36": "key serialisation round-trip plus one os.open(..., 0o600); synchronous, no fault or schedule in the statement",
 "C37": "parser robustness over mutated inputs of a fully buffered file; calling the mutator a disk fault would be dressing a fuzzer as a simulator",
 "C39": "Message / deflate_long encode/decode are pure functions",
 "C40": "SSHConfig.lookup is a pure function of (config text, hostname)",
 "C41": "HostKeys is a single-threaded list plus whole-file load/save; the statement promises nothing about crashes or concurrent writers, so save->load is a round-trip, not a durability property",
 "C43": "ModulusPack.get_modulus is a pure selection over a dict plus one uniform draw among equals",
 "C44": "AuthStrategy.authenticate is a sequential loop over in-memory sources; no concurrency, time or I/O",
}

# id -> (category, technique, text, note, design_ref)
CLAIMED = {}

def claim(pid, category, technique, text, note, ref):
    CLAIMED[pid] = (category, technique, text, note, ref)

exec(open(os.path.join(HERE, "tools", "claims.py")).read())

PENDING_REASON = "not claimed yet: the simulated check for this property has not been built/validated at this commit (see DESIGN.md section 5 for the plan)"

def main():
    props = [json.loads(l)["id"] for l in open(os.path.join(HERE, "properties.jsonl"))]
    checks = []
    na = []
    for pid in props:
        if pid in CLAIMED and os.path.exists(os.path.join(HERE, "checks", pid.lower() + ".py")):
            cat, tech, text, note, ref = CLAIMED[pid]
            checks.append({
                "property_id": pid,
                "quick_cmd": "./check %s --tier quick" % pid,
                "thorough_cmd": "./check %s --tier thorough" % pid,
                "evidence_file": "/verif/evidence/%s.json" % pid,
                "replay_cmd_template": "./check replay {path}",
                "engine": "sim",
                "level_claimed": {"category": cat, "text": text, "design_ref": ref},
                "level_note": note,
                "technique": tech,
            })
        elif pid in NA:
            na.append({"property_id": pid, "reason": NA[pid]})
        else:
            na.append({"property_id": pid, "reason": PENDING_REASON})
    m = {
        "version": 1,
        "setup_cmd": "/venv/bin/python -c \"import sys; sys.path.insert(0,'/repo'); import paramiko, cryptography, nacl; print('ok', paramiko.__version__)\"",
        "hooks": {
            "guard": "PARAMIKO_VERIF",
            "enable": "no hooks were needed: every seam is reached by rebinding module attributes of the loaded paramiko modules from /verif/sim/shims.py (nothing in /repo is guarded or instrumented)",
            "baseline_off_cmd": "cd /repo && /venv/bin/python -m pytest -ra -q -p no:cacheprovider --timeout=900 --continue-on-collection-errors",
            "source_commits": [],
            "add_only": True,
        },
        "engines": [{
            "name": "sim",
            "path": "/verif/sim",
            "serves_properties": [c["property_id"] for c in checks],
            "kind_free_text": "deterministic simulation: real paramiko code on real threads scheduled one at a time by a seeded baton scheduler; simulated clock, sockets, entropy; seeded fault injection; choice-log replay and shrinking",
        }],
        "checks": checks,
        "not_applicable": na,
        "notes": "All checks: ./check <ID> --tier quick|thorough; exit 0 held, 1 VIOLATION (replay file), 2 harness error. VERIF_SEED, VERIF_JOBS, VERIF_REPO honoured. known_findings.json lists fixed/open findings.",
    }
    with open(os.path.join(HERE, "MANIFEST.json"), "w") as f:
        json.dump(m, f, indent=1)
    print("claimed", len(checks), "n/a", len(na))

main()
