#!/venv/bin/python
"""Regenerate the generated tables of DESIGN.md section 11 (between BEGIN/END markers) from the
committed evidence, known_findings.json, seeded/*/meta.json and mutants/RESULTS.json."""
import glob, json, os, re
V = "/verif"
d = open(V + "/DESIGN.md").read()

def put(tag, text):
    global d
    a = d.index("<!-- BEGIN:%s -->" % tag) + len("<!-- BEGIN:%s -->" % tag)
    b = d.index("<!-- END:%s -->" % tag)
    d = d[:a] + "\n" + text.rstrip() + "\n" + d[b:]

# ---- runs
rows = ["| id | level | runs (quick) | runs/hour | simulated s | distinct non-trivial | faults fired (kinds: total) | steps |",
        "|----|-------|-------------|-----------|-------------|----------------------|------------------------------|-------|"]
for f in sorted(glob.glob(V + "/evidence/C*.json")):
    e = json.load(open(f))
    c = e["coverage"]
    ff = c.get("faults_fired", {})
    rows.append("| %s | %s | %d | %d | %.0f | %d | %d: %d | %d |" % (
        e["property_id"], e["level"], c["evaluations"], c.get("runs_per_hour", 0), c.get("simulated_seconds", 0),
        c["distinct_nontrivial"], len(ff), sum(ff.values()), c.get("steps", 0)))
put("runs", "\n".join(rows))

# ---- as-built summary per property (from tools/claims.py and the checks' ASSUMPTIONS)
CLAIMED = {}
def claim(pid, category, technique, text, note, ref):
    CLAIMED[pid] = (category, technique, text, note, ref)
exec(open(V + "/tools/claims.py").read())
import re as _re
out = []
for pid in sorted(CLAIMED):
    cat, tech, text, note, ref = CLAIMED[pid]
    src = open(V + "/checks/%s.py" % pid.lower()).read()
    m = _re.search(r'BUDGET = (\{.*?\}\})', src, _re.S)
    out.append("**%s** (%s) - %s.\n%s\n*Trusted / assumed:* %s\n" % (pid, cat, tech, text, note))
put("asbuilt", "\n".join(out))

# ---- findings
kf = json.load(open(V + "/known_findings.json"))
rows = ["| property | status | fix commit | what failed |", "|----------|--------|------------|-------------|"]
seen = set()
for k in sorted(kf, key=lambda k: (k["property"], k["status"] != "open", k.get("fix_commit") or "")):
    key = (k["property"], k.get("fix_commit"), k["what_fails"])
    if key in seen:
        continue
    seen.add(key)
    rows.append("| %s | %s | %s | %s |" % (k["property"], k["status"], k.get("fix_commit") or "-",
                                           k["what_fails"].replace("|", "/")[:330]))
put("findings", "\n".join(rows) + "\n\n%d entries: %d fixed, %d open." % (
    len(seen), sum(1 for k in seen if k[1]), sum(1 for k in seen if not k[1])))

# ---- sensitivity
rows = ["| change | kind | owning check(s) | result | fingerprints (first two) / note |",
        "|--------|------|-----------------|--------|----------------------------------|"]
res = json.load(open(V + "/mutants/RESULTS.json")) if os.path.exists(V + "/mutants/RESULTS.json") else {}
for n in sorted(res):
    kind = "revert of fix" if "-revert-" in n else "own mutant"
    for pid, r in sorted(res[n].items()):
        rows.append("| mutants/%s | %s | %s | %s | %s |" % (
            n, kind, pid, "caught in %ds" % r["seconds"] if r["caught"] else "NOT caught (exit %d)" % r["exit"],
            "; ".join(x.replace("|", "/") for x in r["fingerprints"][:2])[:200]))
ncaught = nmiss = nobs = 0
for mp in sorted(glob.glob(V + "/seeded/*/meta.json")):
    m = json.load(open(mp))
    name = os.path.basename(os.path.dirname(mp))
    oc = (m.get("our_check") or {}).get("result", "")
    if m.get("status") == "obsolete":
        result, nobs = "obsolete", nobs + 1
    elif "CAUGHT" in oc:
        mm = re.search(r"CAUGHT by (\w+) in (\d+)s", oc)
        result, ncaught = "caught in %ss" % (mm.group(2) if mm else "?"), ncaught + 1
    elif not oc:
        result = "not run"
    else:
        result, nmiss = "NOT caught", nmiss + 1
    fps = re.findall(r"fingerprint: ([^'\]]+)", oc)
    note = "; ".join(x.replace("|", "/").strip() for x in fps[:2])[:200]
    if m.get("note"):
        note = (note + " -- " if note else "") + m["note"][:260]
    if not m.get("confirmed", True) and m.get("status") != "obsolete":
        note = "(not confirmed: " + str(m.get("confirm_note", "see meta.json"))[:120] + ") " + note
    rows.append("| seeded/%s | sub-agent | %s | %s | %s |" % (name, m["property"], result, note))
put("sensitivity", "\n".join(rows) + "\n\nSeeded changes: %d caught, %d not caught, %d obsolete." % (ncaught, nmiss, nobs))
open(V + "/DESIGN.md", "w").write(d)
print("tables written")
