#!/venv/bin/python
"""Run the sensitivity self-test over mutants/*.diff (or the named ones) and keep the outcome in
mutants/RESULTS.json (one entry per patch: which checks were asked, which caught it, fingerprints)."""
import glob, json, os, re, subprocess, sys, time
V = "/verif"
names = sys.argv[1:] or sorted(os.path.basename(p) for p in glob.glob(V + "/mutants/*.diff"))
rp = V + "/mutants/RESULTS.json"
res = json.load(open(rp)) if os.path.exists(rp) else {}
EXTRA = {  # a patch may have to be caught by more than the property in its name
    "C29-revert-pipelined-status-fix.diff": ["C29", "C30"],
    "C30-revert-readahead-status-fix.diff": ["C30", "C28"],
}
for n in names:
    pids = EXTRA.get(n, [n.split("-")[0]])
    out = {}
    for pid in pids:
        t0 = time.time()
        p = subprocess.run([V + "/tools/mutrun.sh", V + "/mutants/" + n, pid, "--tier", "quick"],
                           capture_output=True, text=True, timeout=3600)
        fps = [l.strip()[len("fingerprint: "):] for l in p.stdout.splitlines() if l.strip().startswith("fingerprint:")]
        out[pid] = {"exit": p.returncode, "caught": p.returncode == 1 and "VIOLATION" in p.stdout, "fingerprints": fps[:4],
                    "seconds": round(time.time() - t0)}
        if p.returncode not in (0, 1):
            out[pid]["tail"] = (p.stdout + p.stderr)[-400:]
    res[n] = out
    json.dump(res, open(rp, "w"), indent=1, sort_keys=True)
    print(n, {k: ("CAUGHT" if v["caught"] else "exit %d" % v["exit"]) for k, v in out.items()}, flush=True)
