claim("C26", "exploration", "deterministic simulation: seeded thread schedules with line-level pre-emption and stall faults, sequential-model oracle in lock order",
      "Seeded search over interleavings (incl. statement-level pre-emption inside buffered_pipe.py) and scheduling stalls of up to 3 tasks running random feed/read/empty/close programs on the real BufferedPipe; every result must be explained by a sequential FIFO model replayed in the order of the pipe lock's critical sections. Sampling, not proof.",
      "Trusts the simulated Lock/Condition/Event to mirror CPython semantics; assumes all pipe state changes happen under its lock.",
      "DESIGN.md 5/C26")
claim("C24", "exploration", "deterministic simulation: seeded schedules with line-level pre-emption of real transports/channels; select() oracle at quiescent points",
      "Seeded search over interleavings of the client's transport thread (feeding stdout/stderr, EOF, close) with application tasks calling fileno/recv/recv_stderr/set_combine_stderr, with statement-level pre-emption in pipe.py, buffered_pipe.py and channel.py; at every quiescent point a real select() on the real kernel pipe must agree with (stdout ready or stderr ready or EOF or closed). Sampling, not proof.",
      "Oracle only at quiescent points; Windows pipe variant not run; simulated primitives trusted to mirror CPython semantics.",
      "DESIGN.md 5/C24")
claim("C01", "exploration", "deterministic simulation: seeded message/keyset scripts over a fault-injecting simulated stream; list-equality oracle plus independent RFC wire decoder",
      "Real Packetizer pair keyed through the real Transport activation code; per run a seeded script of 1-200 messages (boundary-biased sizes up to 70000) with 1-4 key switches over every cipher x MAC x compression suite, under receive fragmentation (down to 1 byte), short sends and spurious timeouts/EAGAIN; the reader's list must equal the sent list, EOF must come at a packet boundary, and an independent decoder keyed by its own RFC 7.2 derivation must read the same messages from the wire. Sampling, not proof.",
      "Endpoints are handed identical (K,H,session id,names) instead of running a key exchange (C04/C06 cover that). Compression setting is kept constant across epochs, as a rekey does.",
      "DESIGN.md 5/C01")
claim("C02", "fault_enumeration", "deterministic simulation with enumerated stream faults: every byte-position flip/delete/insert and packet-level drop/dup/swap/replay on recorded encrypted streams",
      "For each cipher x MAC x compression suite a recorded encrypted stream of 4-8 packets (optionally spanning a rekey) is fed, edited, to a fresh real receiver followed by EOF: every single-byte flip, deletion and insertion position of the encrypted region, every whole-packet drop/duplicate/swap/replay, and random double edits. Delivered messages must be an unmodified prefix ending before the first touched packet, and the receiver must fail or hit EOF. Exhaustive over positions for the sampled streams.",
      "MAC forgery probability ignored; streams are short (<= ~600 bytes); one mask per flip position.",
      "DESIGN.md 5/C02")
claim("C03", "fault_enumeration", "deterministic simulation: enumerated payload lengths per suite under short-write/EAGAIN faults; independent RFC 4253 section 6 decoder as oracle",
      "Every payload length 1..4*blocksize+8 plus 42 boundary lengths up to 70000, for every cipher x MAC suite and cleartext, with each compression, is sent through the real Packetizer over a socket that accepts short writes and raises timeouts/EAGAIN; the accepted bytes are decoded by an independent codec and each packet must satisfy length = 1+payload+padding, 4<=padding<=255, encrypted portion a multiple of max(8, block) with the length excluded for ETM/GCM, MAC/tag length per algorithm, payload identical.",
      "Concrete lengths only (not the symbolic 2^32 range).",
      "DESIGN.md 5/C03")
