claim("C26", "exploration", "deterministic simulation: seeded thread schedules with line-level pre-emption and stall faults, sequential-model oracle in lock order",
      "Seeded search over interleavings (incl. statement-level pre-emption inside buffered_pipe.py) and scheduling stalls of up to 3 tasks running random feed/read/empty/close programs on the real BufferedPipe; every result must be explained by a sequential FIFO model replayed in the order of the pipe lock's critical sections. Sampling, not proof.",
      "Trusts the simulated Lock/Condition/Event to mirror CPython semantics; assumes all pipe state changes happen under its lock.",
      "DESIGN.md 5/C26")
claim("C24", "exploration", "deterministic simulation: seeded schedules with line-level pre-emption of real transports/channels; select() oracle at quiescent points",
      "Seeded search over interleavings of the client's transport thread (feeding stdout/stderr, EOF, close) with application tasks calling fileno/recv/recv_stderr/set_combine_stderr, with statement-level pre-emption in pipe.py, buffered_pipe.py and channel.py; at every quiescent point a real select() on the real kernel pipe must agree with (stdout ready or stderr ready or EOF or closed). Sampling, not proof.",
      "Oracle only at quiescent points; Windows pipe variant not run; simulated primitives trusted to mirror CPython semantics.",
      "DESIGN.md 5/C24")
