claim("C26", "exploration", "deterministic simulation: seeded thread schedules with line-level pre-emption and stall faults, sequential-model oracle in lock order",
      "Seeded search over interleavings (incl. statement-level pre-emption inside buffered_pipe.py) and scheduling stalls of up to 3 tasks running random feed/read/empty/close programs on the real BufferedPipe; every result must be explained by a sequential FIFO model replayed in the order of the pipe lock's critical sections. Sampling, not proof.",
      "Trusts the simulated Lock/Condition/Event to mirror CPython semantics; assumes all pipe state changes happen under its lock.",
      "DESIGN.md 5/C26")
