#!/bin/sh
# usage: mutrun.sh <patch> <check args...>   -- run ./check against a scratch copy with the patch
P=$1; shift
T=$(mktemp -d /tmp/verif-mut-XXXX); mkdir -p $T/repo; cp -r /repo/paramiko $T/repo/; rm -rf $T/repo/paramiko/__pycache__
patch -p1 -s -d $T/repo -i $(realpath $P) || { echo PATCH FAILED; rm -rf $T; exit 9; }
VERIF_REPO=$T/repo VERIF_OUT=$T/out /verif/check "$@"; rc=$?
rm -rf $T; exit $rc
