#!/bin/sh
# usage: mutrun.sh <patch> <check args...>   -- run ./check against a scratch copy with the patch
# VERIF_KEEP=<dir>: copy the replay files of that run there before the scratch copy is removed
P=$1; shift
T=$(mktemp -d /tmp/verif-mut-XXXX); mkdir -p $T/repo; cp -r /repo/paramiko $T/repo/; rm -rf $T/repo/paramiko/__pycache__
patch -p1 -s -d $T/repo -i $(realpath $P) || { echo PATCH FAILED; rm -rf $T; exit 9; }
VERIF_REPO=$T/repo VERIF_OUT=$T/out /verif/check "$@"; rc=$?
if [ -n "$VERIF_KEEP" ]; then mkdir -p "$VERIF_KEEP"; cp $T/out/replays/*.json "$VERIF_KEEP"/ 2>/dev/null; fi
rm -rf $T; exit $rc
