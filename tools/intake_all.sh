#!/bin/sh
# process every /tmp/wt/<PID>/MUTANTS/<m> not yet recorded in /verif/seeded/<PID>-<m>/meta.json
for d in $(for p in "$@"; do ls -d /tmp/wt/$p/MUTANTS/*/; done); do
  [ -f "$d/patch.diff" ] || continue
  m=$(basename "$d"); pid=$(basename $(dirname $(dirname "$d")))
  [ -f "/verif/seeded/$pid-$m/meta.json" ] && continue
  [ -f "/verif/checks/$(echo $pid | tr A-Z a-z).py" ] || { echo "$pid-$m: check not built yet, skipping"; continue; }
  /verif/tools/intake.py $pid $m
done
