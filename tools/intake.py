#!/venv/bin/python
"""Intake of a sub-agent mutant: copy to /verif/seeded/<name>/, confirm patch applies, demo
passes clean and fails mutated, existing suite passes mutated; then run our check against it.
usage: intake.py <PID> <mutant dir name, e.g. m1> [--no-suite]"""
import json, os, shutil, subprocess, sys, time
pid, mk = sys.argv[1], sys.argv[2]
wt = "/tmp/wt/%s" % pid
src = os.path.join(wt, "MUTANTS", mk)
name = "%s-%s" % (pid, mk)
dst = "/verif/seeded/%s" % name
os.makedirs(dst, exist_ok=True)
for f in ("patch.diff", "demo.py", "notes.md"):
    if os.path.exists(os.path.join(src, f)):
        shutil.copy(os.path.join(src, f), os.path.join(dst, f))
def sh(cmd, cwd=wt, timeout=1500):
    p = subprocess.run(cmd, shell=True, cwd=cwd, capture_output=True, text=True, timeout=timeout)
    return p.returncode, (p.stdout + p.stderr)
meta = {"property": pid, "name": name, "source": "independent sub-agent given only the property text and a scratch worktree"}
sh("git checkout -- paramiko")
rc, out = sh("git apply --check MUTANTS/%s/patch.diff" % mk)
meta["patch_applies"] = rc == 0
rc0, out0 = sh("/venv/bin/python MUTANTS/%s/demo.py" % mk, timeout=300)
meta["demo_clean"] = {"exit": rc0, "tail": out0[-300:]}
sh("git apply MUTANTS/%s/patch.diff" % mk)
rc1, out1 = sh("/venv/bin/python MUTANTS/%s/demo.py" % mk, timeout=300)
meta["demo_mutated"] = {"exit": rc1, "tail": out1[-300:]}
if "--no-suite" not in sys.argv:
    rcs, outs = sh("/venv/bin/python -m pytest -q -p no:cacheprovider --timeout=900 2>&1 | tail -15")
    ls = [l for l in outs.splitlines() if (" passed" in l or " failed" in l)]
    meta["suite_mutated"] = ls[-1].strip() if ls else "?"
sh("git checkout -- paramiko")
notes = open(os.path.join(dst, "notes.md")).read() if os.path.exists(os.path.join(dst, "notes.md")) else ""
meta["needs_to_manifest"] = notes[:1500]
json.dump(meta, open(os.path.join(dst, "meta.json"), "w"), indent=1)
t0 = time.time()
p = subprocess.run(["/verif/check", "selftest-sensitivity", os.path.join(dst, "patch.diff")], cwd="/verif",
                   capture_output=True, text=True, timeout=3600)
meta["our_check"] = {"cmd": "./check selftest-sensitivity seeded/%s/patch.diff" % name,
                     "result": (p.stdout.strip() or p.stderr.strip())[-600:], "seconds": round(time.time() - t0)}
meta["confirmed"] = bool(meta["patch_applies"] and rc0 == 0 and rc1 != 0 and
                         ("passed" in meta.get("suite_mutated", "passed") and "failed" not in meta.get("suite_mutated", "")))
json.dump(meta, open(os.path.join(dst, "meta.json"), "w"), indent=1)
print(name, "confirmed=%s" % meta["confirmed"], "suite:", meta.get("suite_mutated"), "|", meta["our_check"]["result"][-300:])
