#!/venv/bin/python
"""Re-run our checks against every seeded mutant (or the named ones) and update meta.json."""
import json, os, subprocess, sys, time, glob
names = sys.argv[1:] or sorted(os.path.basename(d) for d in glob.glob("/verif/seeded/*") if os.path.isdir(d))
for n in names:
    d = "/verif/seeded/" + n
    mp = os.path.join(d, "meta.json")
    if not os.path.exists(mp):
        continue
    meta = json.load(open(mp))
    t0 = time.time()
    p = subprocess.run(["/verif/check", "selftest-sensitivity", os.path.join(d, "patch.diff")], cwd="/verif",
                       capture_output=True, text=True, timeout=7200)
    meta["our_check"] = {"cmd": "./check selftest-sensitivity seeded/%s/patch.diff" % n,
                         "result": (p.stdout.strip() or p.stderr.strip())[-600:], "seconds": round(time.time() - t0)}
    json.dump(meta, open(mp, "w"), indent=1)
    print(n, "|", meta["our_check"]["result"][-250:])
