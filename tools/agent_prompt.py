#!/venv/bin/python
"""Prints the prompt given to a mutant-writing sub-agent for one property."""
import json, sys
pid = sys.argv[1]
n = sys.argv[2] if len(sys.argv) > 2 else "2"
first = int(sys.argv[3]) if len(sys.argv) > 3 else 1
last = first + int(n) - 1
for l in open("/verif/properties.jsonl"):
    p = json.loads(l)
    if p["id"] == pid:
        break
print(f"""You are helping to evaluate a verification effort for the Python SSH library paramiko. Your job: write {n} DIFFERENT realistic source changes ("mutants") to paramiko that each BREAK the semantic property below, while the library still imports and its existing test-suite still passes. You work ONLY inside the git worktree /tmp/wt/{pid} (a checkout of paramiko). Do NOT read, list or touch anything under /verif or /repo, and do not use the network.

PROPERTY {pid}: {p['title']}
{p['statement']}
Quantified over: {p['quantifier']['text']}
Code it is anchored in: {', '.join(p['anchors']['files'])}

Requirements for each mutant:
1. It is a small, plausible edit to files under /tmp/wt/{pid}/paramiko/ (the kind of bug a refactoring or an optimisation could introduce), NOT an obviously sabotaging edit, and not a change to tests.
2. It must need something SPECIFIC to manifest: a particular thread interleaving, a fault/connection loss/short read at a particular point, a multi-step sequence of operations, an unusual input or size boundary, or two cooperating sites that each look fine alone. Ordinary simple use must still work. Prefer bugs in the behaviour the property is about over crashes.
3. With the mutant applied the existing suite must still pass. Run it from the worktree:  cd /tmp/wt/{pid} && /venv/bin/python -m pytest -q -p no:cacheprovider -x --timeout=900 2>&1 | tail -5   (takes ~90 s; expect "534 passed, 26 skipped" like the unmodified tree). First confirm that the worktree's code is what runs: cd /tmp/wt/{pid} && /venv/bin/python -c "import paramiko; print(paramiko.__file__)" must print a path under /tmp/wt/{pid}.
4. Provide a demonstration: a standalone script demo.py (run as: cd /tmp/wt/{pid} && /venv/bin/python MUTANTS/<name>/demo.py) that exits 0 and prints PASS on the unmodified worktree and exits 1 printing FAIL on the mutated worktree. The demo may use threads, paramiko's tests/_loop.LoopSocket, monkeypatching, sleeps or forced orderings (e.g. events/hooks placed by the demo itself) to force the specific situation; it must be reliable (same result 5 times in a row) and finish in under 60 s.

Deliverables, for each mutant k = {first}..{last}, in directory /tmp/wt/{pid}/MUTANTS/m<k>/ :
  - patch.diff : produced with `git -C /tmp/wt/{pid} diff -- paramiko > MUTANTS/m<k>/patch.diff` while only that mutant is applied (it must apply with `git apply` to a clean checkout);
  - demo.py : the demonstration;
  - notes.md : 5-10 lines: what was changed, why it breaks the property, what it needs in order to manifest, and the exact commands you ran with their results (suite result with the mutant, demo result with and without).
After finishing each mutant, restore the worktree with `git -C /tmp/wt/{pid} checkout -- paramiko` (keep MUTANTS/ untracked). Leave the worktree clean (apart from MUTANTS/) at the end. NEVER use `git stash` (the stash is shared by all worktrees of this repository and other people work in sibling worktrees; use `git diff > file`, `git checkout -- paramiko`, `git apply file` instead). Do not create files elsewhere except temporary files under /tmp/wt/{pid}/. Make the mutants different from each other in mechanism (different function or different kind of fault). In your final message, list the mutants with one line each and confirm the verification results.""")
