#!/bin/sh
# usage: mutbig.sh <patch> <PID> <runs> : run N quick-style runs against the mutant
P=$1; PID=$2; N=$3
T=$(mktemp -d /tmp/verif-mut-XXXX); mkdir -p $T/repo; cp -r /repo/paramiko $T/repo/; rm -rf $T/repo/paramiko/__pycache__
patch -p1 -s -d $T/repo -i $(realpath $P) || { echo PATCH FAILED; rm -rf $T; exit 9; }
cd /verif; VERIF_REPO=$T/repo VERIF_OUT=$T/out VERIF_SEED=${4:-7} /venv/bin/python - <<PY
import sys, os
sys.path.insert(0, os.environ["VERIF_REPO"]); sys.path.insert(1, "/verif")
from sim import runner
mod = runner.load_check("$PID")
mod.BUDGET["quick"] = {"runs": $N, "wall": 600}
sys.exit(runner.run_check("$PID", "quick", int(os.environ["VERIF_SEED"]), 16))
PY
rc=$?; rm -rf $T; exit $rc
