"""C02 -- tampered ciphertext is never accepted as different data.

PKT engine, fault enumeration: a sender produces an encrypted stream of 3-6
packets (one suite per run, the seed index walks all suites); then for EVERY
byte position of the encrypted region: one flip, one deletion, one insertion;
plus whole-packet drop/duplicate/swap/replay and random multi-edits.  Each case
is a fresh real receiver (keyed like the sender) fed the edited bytes followed
by EOF."""
from paramiko import Transport, Message

from sim import pkt
from sim.core import Violation
from sim.net import Link

PROPERTY = "C02"
LEVEL = "fault_enumeration"
SUITES = pkt.suites()
NCASES = len(SUITES) * 3
BUDGET = {"quick": {"runs": NCASES * 2, "wall": 55}, "thorough": {"runs": NCASES * 60, "wall": 560}}
RULE = ("Per run one (cipher, MAC, compression) suite and a recorded encrypted stream; enumerated "
        "faults: flip / delete / insert at every byte offset of the encrypted region, every "
        "whole-packet drop, duplicate, adjacent swap and replay-at-end, 40 random double edits; one run in five uses a stream "
        "of 530+ tiny packets with drops / replays / swaps / duplications 255, 256, 257 and 512 packets apart. "
        "evaluations counts runs; probes.cases counts individual tampered streams.")
COMPONENTS = {"real": ["paramiko.packet.Packetizer (receiver and sender)", "Transport key activation", "cryptography"],
              "simulated": ["socket delivering the edited byte stream then EOF", "entropy"]}
ASSUMPTIONS = ["A forged MAC/tag (probability <= 2^-96 per case) is not considered."]
EXHAUSTIVE = True


def sim_kw(seed):
    return {"max_steps": 50_000_000, "max_time": 1e9}


def receive(sim, data, keysets, authenticated):
    link = Link(sim)
    link.record_wire = False
    sock = link.b
    sock.rxbuf += data
    sock.rx_eof = True
    tr = Transport(sock)
    tr.server_mode = True
    tr.authenticated = authenticated
    got = []
    ki = 0
    exc = None
    try:
        while True:
            ptype, m = tr.packetizer.read_message()
            got.append(bytes([ptype]) + m.asbytes())
            if ptype == 21 and ki < len(keysets):
                pkt.apply_in(tr, keysets[ki])
                ki += 1
    except BaseException as e:  # any failure is a legitimate way to stop
        if type(e).__name__ in ("SimAbort", "SimBudget", "SimDeadlock"):
            raise
        exc = e
    return got, exc


def scenario(sim):
    sim.p_switch = 0.0
    idx = sim.seed % NCASES
    cipher, mac = SUITES[idx // 3]
    comp = pkt.COMP_NAMES[idx % 3]
    authenticated = True
    ks = [pkt.KeySet(sim, cipher, mac, comp, ("sha1", "sha256", "sha512")[sim.choose(3)], bool(sim.choose(2)))]
    two_epochs = sim.choose(3) == 0
    if two_epochs:
        c2, m2 = SUITES[sim.choose(len(SUITES))]
        ks.append(pkt.KeySet(sim, c2, m2, comp, "sha256", ks[0].strict))
    # --- record the honest stream
    link = Link(sim)
    ts = Transport(link.a)
    ts.authenticated = authenticated
    msgs = []
    pkt.apply_out(ts, ks[0])
    msgs.append(b"\x15")
    # one run in five records a LONG stream of tiny packets instead, so that edits 256 and 512 packets apart are
    # possible (per-packet state that wraps around: counters in nonces, sequence numbers)
    long_stream = sim.seed % 5 == 2
    # another run in five: a few LARGE packets (beyond 16 KiB, up to the largest a channel sends), edited at sampled
    # offsets: start, around every 4 KiB multiple, the tail and the MAC (integrity code that treats large inputs
    # differently, or in pieces, shows only here)
    big_packets = sim.seed % 5 == 3
    n = 530 + sim.choose(40) if long_stream else (2 + sim.choose(2) if big_packets else 3 + sim.choose(4))
    for i in range(n):
        size = (1, 2, 5)[sim.choose(3)] if long_stream else (1, 2, 5, 16, 17, 33, 60, 120)[sim.choose(8)]
        body = pkt.random_message(sim, False)[:size]
        if big_packets:
            body = b"\x5e" + sim.payload.randbytes((16385, 20000, 32700, 35000, 16384 + 16)[sim.choose(5)])
        if body[0] == 21:
            body = b"\x5e" + body[1:]
        m = Message()
        m.add_bytes(body)
        ts.packetizer.send_message(m)
        msgs.append(body)
        if two_epochs and i == n // 2:
            pkt.apply_out(ts, ks[1])
            msgs.append(b"\x15")
    segs = [s for _, _, s in link.wire[0]]
    stream = b"".join(segs)
    bounds = []
    o = 0
    for s in segs:
        bounds.append((o, o + len(s)))
        o += len(s)
    start = bounds[0][1]          # encryption is active after the first NEWKEYS
    if len(segs) != len(msgs):
        raise RuntimeError("harness: %d wire segments for %d messages" % (len(segs), len(msgs)))
    desc = {"suite": [k.describe() for k in ks], "packets": len(segs), "stream_bytes": len(stream)}

    def pkt_of(off):
        for i, (a, b) in enumerate(bounds):
            if a <= off < b:
                return i
        return len(bounds)

    # sanity: the unedited stream must be delivered completely (non-vacuity)
    got, exc = receive(sim, stream, ks, authenticated)
    if got != msgs or not isinstance(exc, EOFError):
        raise Violation(("C02", "honest-stream-not-delivered"),
                        "unedited stream: got %d of %d messages, ended with %r" % (len(got), len(msgs), exc), desc)
    cases = [0]

    def case(edited, kind, where):
        cases[0] += 1
        # first differing byte decides which packet is the first one touched
        fd = 0
        m = min(len(edited), len(stream))
        while fd < m and edited[fd] == stream[fd]:
            fd += 1
        if fd == len(stream) and len(edited) == len(stream):
            return  # no-op edit
        k = pkt_of(fd)
        got, exc = receive(sim, edited, ks, authenticated)
        for i, g in enumerate(got):
            if i >= len(msgs) or g != msgs[i]:
                raise Violation(("C02", "delivered-different-message", kind),
                                "%s at %s: delivered message %d differs from what was sent "
                                "(type %d len %d)" % (kind, where, i, g[0], len(g)), desc)
        if len(got) > k:
            raise Violation(("C02", "delivered-after-tamper", kind),
                            "%s at %s: first touched packet is #%d but %d messages were delivered"
                            % (kind, where, k, len(got)), desc)
        if exc is None:
            raise Violation(("C02", "no-failure", kind), "%s at %s: receiver neither failed nor hit EOF" % (kind, where), desc)

    L = len(stream)
    if big_packets:
        offs = set()
        for a, b in bounds[1:]:
            offs.update(range(a, min(b, a + 24)))
            offs.update(range(max(a, b - 100), b))
            for k in range(4096, b - a, 4096):
                offs.update(range(a + k - 6, min(b, a + k + 6)))
            for _ in range(25):
                offs.add(a + sim.payload.randrange(b - a))
        positions = sorted(offs)
        sim.probe("big_packet_streams")
    else:
        positions = range(start, min(L, start + 90) if long_stream else L)
    for off in positions:
        mask = (0x01, 0x80, 0xFF, 1 + sim.payload.randrange(255))[off & 3]
        case(stream[:off] + bytes([stream[off] ^ mask]) + stream[off + 1:], "flip", off)
        case(stream[:off] + stream[off + 1:], "delete", off)
        case(stream[:off] + bytes([sim.payload.randrange(256)]) + stream[off:], "insert", off)
    case(stream + bytes([sim.payload.randrange(256)]), "insert", L)
    if long_stream:
        # packet-level edits at distances of 256 and 512 packets
        nseg = len(segs)
        for i in (1, 2, 1 + sim.choose(10)):
            for dist in (256, 512, 255, 257):
                if i + dist >= nseg:
                    continue
                a, b = bounds[i]
                c, d = bounds[i + dist]
                case(stream[:a] + stream[c:], "drop-%d-packets" % dist, i)
                case(stream[:d] + stream[a:b] + stream[d:], "replay-packet-%d-later" % dist, i)
                case(stream[:a] + stream[c:d] + stream[b:c] + stream[a:b] + stream[d:], "swap-packets-%d-apart" % dist, i)
                case(stream[:c] + stream[a:c] + stream[c:], "duplicate-%d-packets" % dist, i)
        sim.probe("long_streams")
    # whole-packet edits (encrypted packets only)
    for i in range(1, len(segs) if not long_stream else 4):
        a, b = bounds[i]
        case(stream[:a] + stream[b:], "drop-packet", i)
        case(stream[:b] + stream[a:b] + stream[b:], "duplicate-packet", i)
        case(stream + stream[a:b], "replay-packet-at-end", i)
        if i + 1 < len(segs):
            c, d = bounds[i + 1]
            case(stream[:a] + stream[c:d] + stream[a:b] + stream[d:], "swap-packets", i)
    for _ in range(40):
        e = bytearray(stream)
        for _ in range(2):
            off = start + sim.payload.randrange(L - start)
            op = sim.payload.randrange(3)
            if op == 0 and off < len(e):
                e[off] ^= 1 + sim.payload.randrange(255)
            elif op == 1 and off < len(e):
                del e[off]
            else:
                e.insert(min(off, len(e)), sim.payload.randrange(256))
        case(bytes(e), "multi-edit", "random")
    sim.probe("cases", cases[0])
    sim.fault("tampered_streams", cases[0])
    return {"sample": desc, "case_key": "%s#%d" % (desc["suite"][0], sim.seed), "nontrivial": True,
            "counts": [cipher + "+" + mac]}
