"""C15 -- unauthenticated clients cannot reach connection-layer services.

LINK engine, byzantine raw client.  Every connection-layer message type
(80-100), well-formed and with random payloads, is sent at every point of a
scripted pre-authentication history: before the service request, after it,
after a failed, a partially successful and a probe request, between an
interactive INFO_REQUEST and its response, and inside the window of a re-key
the server started before authentication (after its KEXINIT, before the
client's).
Oracle: the application is never consulted about channels, port forwarding or
global requests and no channel exists before a success; GLOBAL_REQUEST is
answered with REQUEST_FAILURE, CHANNEL_OPEN with OPEN_FAILURE; nothing else is
answered with a success-type message."""
import struct

from paramiko.common import AUTH_FAILED, AUTH_PARTIALLY_SUCCESSFUL, AUTH_SUCCESSFUL

from sim import ssh, rawclient, core
from sim.core import Violation
from sim.rawclient import RawSession, RecordingServer, sstr

PROPERTY = "C15"
LEVEL = "fault_enumeration"
POINTS = ("before-service-request", "after-service-request", "after-failed-request", "after-partial-success",
          "after-pk-probe", "between-info-request-and-response", "inside-server-started-rekey")
TYPES = list(range(80, 101))
CASES = [(pt, t, wf) for pt in POINTS for t in TYPES for wf in (True, False)]
BUDGET = {"quick": {"runs": len(CASES) * 3, "wall": 50}, "thorough": {"runs": len(CASES) * 120, "wall": 560}}
EXHAUSTIVE = True
RULE = ("Enumerated (%d cases): injection point in the pre-auth history x message type 80..100 x (well-formed | random "
        "payload); each run sends the case's message plus 0-3 further random connection-layer messages." % len(CASES))
COMPONENTS = {"real": ["server Transport/AuthHandler unmodified; client is a real Transport emitting hand-built messages"],
              "simulated": ["socket", "clock", "scheduling", "entropy"]}
ASSUMPTIONS = ["'connection ends' and 'message ignored' are both acceptable outcomes for channel-number messages"]


def sim_kw(seed):
    return {"max_steps": 2_000_000, "max_time": 3600.0}


def wellformed(sim, t):
    u32 = lambda v: struct.pack(">I", v)
    chan = sim.choose(3)
    if t == 80:
        kind = ("tcpip-forward", "cancel-tcpip-forward", "keepalive@openssh.com", "no-such@x")[sim.choose(4)]
        body = sstr(kind) + b"\x01"
        if "tcpip" in kind:
            body += sstr("0.0.0.0") + u32(2222)
        return bytes([80]) + body
    if t in (81, 82):
        return bytes([t]) + (u32(4242) if t == 81 and sim.choose(2) else b"")
    if t == 90:
        kind = ("session", "direct-tcpip", "x11", "forwarded-tcpip", "auth-agent@openssh.com")[sim.choose(5)]
        body = sstr(kind) + u32(chan) + u32(1 << 20) + u32(32768)
        if kind == "direct-tcpip":
            body += sstr("10.0.0.1") + u32(80) + sstr("1.2.3.4") + u32(5555)
        return bytes([90]) + body
    if t == 91:
        return bytes([91]) + u32(chan) + u32(7) + u32(1 << 20) + u32(32768)
    if t == 92:
        return bytes([92]) + u32(chan) + u32(1) + sstr("no") + sstr("en")
    if t == 93:
        return bytes([93]) + u32(chan) + u32(1000)
    if t == 94:
        return bytes([94]) + u32(chan) + sstr("data")
    if t == 95:
        return bytes([95]) + u32(chan) + u32(1) + sstr("err")
    if t in (96, 97, 99, 100):
        return bytes([t]) + u32(chan)
    if t == 98:
        req = ("exec", "shell", "pty-req", "subsystem", "env")[sim.choose(5)]
        body = u32(chan) + sstr(req) + b"\x01"
        if req == "exec":
            body += sstr("id")
        elif req == "subsystem":
            body += sstr("sftp")
        return bytes([98]) + body
    return bytes([t]) + u32(chan)      # 83..89: unassigned in the connection range


def scenario(sim):
    sim.p_switch = (0.02, 0.2)[sim.choose(2)]
    point, t, wf = CASES[sim.seed % len(CASES)]
    server = RecordingServer(sim, weights=(0, 0, 1))
    s = RawSession(sim, server=server, latency=0.1 if point == "inside-server-started-rekey" else (0.0, 0.01)[sim.choose(2)])
    key = ssh.key("ed25519_1")
    desc = {"point": point, "type": t, "well_formed": wf}
    if point != "before-service-request":
        s.service_request(); s.settle(5)
    if point == "after-failed-request":
        s.auth_password("alice", "wrong"); s.settle(5)
    elif point == "after-partial-success":
        server.forced = AUTH_PARTIALLY_SUCCESSFUL
        s.auth_password("alice", "half"); s.settle(5)
    elif point == "after-pk-probe":
        server.forced = AUTH_SUCCESSFUL       # the key is acceptable -> PK_OK, still not authenticated
        s.auth_pk_probe("alice", key); s.settle(5)
    elif point == "between-info-request-and-response":
        server.forced = None
        # make the application ask a question
        orig = server.check_auth_interactive
        def ask(username, submethods):
            from paramiko import InteractiveQuery
            server._rec("auth", "keyboard-interactive", username, "query", "QUERY")
            server.rounds_left = 1
            q = InteractiveQuery("t", "i"); q.add_prompt("p?", False)
            return q
        server.check_auth_interactive = ask
        s.auth_kbdint("alice"); s.settle(5)
    rk = None
    if point == "inside-server-started-rekey":
        # the server asks for new keys before the client has authenticated; what the client sends now arrives after
        # the server's KEXINIT went out and before the client's KEXINIT comes in (0.1 s each way)
        if sim.choose(2):
            s.auth_password("alice", "wrong"); s.settle(5)
        rkres = {}

        def do_rekey():
            try:
                s.ts.renegotiate_keys()
                rkres["r"] = "ok"
            except Exception as e:
                rkres["r"] = e
        rk = sim.spawn(do_rekey, "server-rekey")
        sim.sleep(0.02)
        sim.probe("messages_sent_into_server_rekey_window")
    msgs = [wellformed(sim, t) if wf else bytes([t]) + sim.payload.randbytes((0, 1, 3, 4, 9, 40)[sim.choose(6)])]
    for _ in range(sim.choose(4)):
        t2 = TYPES[sim.choose(len(TYPES))]
        msgs.append(wellformed(sim, t2) if sim.choose(2) else bytes([t2]) + sim.payload.randbytes(sim.choose(20)))
    mark = sim.seq
    for m in msgs:
        if not s.raw(m):
            break
        sim.fault("pre_auth_connection_message")
        if sim.choose(2):
            s.settle(3)
    if rk is not None:
        sim.join_task(rk, 30)
    s.settle(10)
    desc["messages"] = [m[0] for m in msgs]
    # --- oracle
    conn_cbs = [c for c in server.log if c[2] == "conn"]
    if conn_cbs:
        c = conn_cbs[0]
        raise Violation(("C15", "application-consulted-before-auth", c[3], point),
                        "unauthenticated client made the server call %s%r (%s, after message types %s)"
                        % (c[3], c[4:], point, desc["messages"]), desc)
    ch = s.ts.accept(0.01)
    if ch is not None:
        raise Violation(("C15", "channel-created-before-auth", point), "accept() returned a channel for an unauthenticated client", desc)
    tx = [(e[0], e[4], e[5]) for e in s.plog if e[2] == "s" and e[3] == "tx" and e[0] > mark]
    for seq, ptype, payload in tx:
        if ptype in (81, 91, 99):
            raise Violation(("C15", "success-reply-before-auth", str(ptype), point),
                            "server answered an unauthenticated client with message type %d" % ptype, desc)
        if ptype in (93, 94, 95, 96, 97, 98):
            raise Violation(("C15", "channel-traffic-before-auth", str(ptype), point),
                            "server sent channel message type %d to an unauthenticated client" % ptype, desc)
    # well-formed first message: the documented refusals
    if wf and s.ts.is_active():
        types = [p for _, p, _ in tx]
        if t == 80 and 82 not in types:
            raise Violation(("C15", "global-request-not-refused", point), "GLOBAL_REQUEST (want_reply) got no REQUEST_FAILURE; replies %s" % types, desc)
        if t == 90 and 92 not in types:
            raise Violation(("C15", "channel-open-not-refused", point), "CHANNEL_OPEN got no OPEN_FAILURE; replies %s" % types, desc)
    if t == 90 and wf:
        fails = [pl for _, p, pl in tx if p == 92]
        for pl in fails:
            reason = struct.unpack_from(">I", pl, 5)[0]
            if reason != 1:
                raise Violation(("C15", "open-failure-reason", str(reason)), "OPEN_FAILURE reason %d, expected 1 (administratively prohibited)" % reason, desc)
    if s.ts.is_authenticated():
        raise Violation(("C15", "authenticated-without-auth", point), "server reports authenticated", desc)
    sim.probe("server_alive_after" if s.ts.is_active() else "server_ended_connection")
    if not s.ts.is_active():
        e = s.ts.get_exception()
        sim.probe("ended_with_%s_type%d%s" % (type(e).__name__, t, "wf" if wf else "rnd"))
    s.close()
    return {"sample": desc, "case_key": "%s|%d|%s" % (point, t, wf), "nontrivial": True, "counts": [point]}
