"""C16 -- a server pins one username per connection and caps failed attempts.

LINK engine, byzantine raw client against an unmodified server whose
application answers from a seeded script.  Generated: sequences of 1-24
authentication requests mixing three usernames, services, methods and
outcomes, sent one by one or pipelined.  Oracle: reference model evaluated over
the server's receive order, its application callbacks and its replies."""
from paramiko.common import AUTH_SUCCESSFUL

from sim import ssh, rawclient, core
from sim.core import Violation
from sim.rawclient import RawSession, RecordingServer, parse_failure

PROPERTY = "C16"
LEVEL = "exploration"
BUDGET = {"quick": {"runs": 1600, "wall": 50}, "thorough": {"runs": 60000, "wall": 560}}
RULE = ("Each run: 1-24 USERAUTH_REQUESTs (+ interactive responses, repeated SERVICE_REQUESTs) with users from {alice, bob, "
        "carol, case/space variants, the empty name}, services from "
        "{ssh-connection, ssh-userauth, junk}, methods none/password/publickey(probe, signed)/keyboard-interactive; "
        "callback verdicts drawn from per-run weights; requests sent singly or in pipelined bursts.")
COMPONENTS = {"real": ["server Transport + AuthHandler unmodified; client is a real Transport emitting hand-built auth messages"],
              "simulated": ["socket", "clock", "scheduling", "entropy"], "oracle": ["reference auth model over server rx / callback / tx order"]}
ASSUMPTIONS = ["failures are counted from the wire (USERAUTH_FAILURE with partial-success false)"]


def sim_kw(seed):
    return {"max_steps": 2_000_000, "max_time": 3600.0}


def scenario(sim):
    sim.p_switch = (0.02, 0.2)[sim.choose(2)]
    weights = ((0, 1, 8), (1, 2, 6), (1, 1, 2), (0, 0, 1))[sim.choose(4)]
    server = RecordingServer(sim, weights=weights, interactive_rounds=1 + sim.choose(2))
    s = RawSession(sim, server=server, latency=(0.0, 0.01)[sim.choose(2)])
    s.service_request()
    s.settle()
    n = (1 + sim.choose(6), 6 + sim.choose(10), 12 + sim.choose(13))[sim.choose(3)]
    p_other_user = (0.0, 0.05, 0.3)[sim.choose(3)]
    p_other_service = (0.0, 0.03, 0.2)[sim.choose(3)]
    key = ssh.key("ed25519_1")
    ops = []
    # the name the connection gets pinned to is usually alice, sometimes the empty string
    base = ("alice", "alice", "alice", "")[sim.choose(4)]
    p_service_again = (0.0, 0.0, 0.1)[sim.choose(3)]
    for i in range(n):
        user = base
        if sim.choose_bool(p_other_user):
            user = [u for u in ("bob", "carol", "Alice", "alice ", "alice", "") if u != base][sim.choose(5)]
        if i and sim.choose_bool(p_service_again) and s.tc.is_active():
            # the client asks for the authentication service once more in the middle of the dialogue
            s.service_request()
            ops.append(("service-request-again",))
            sim.probe("service_request_repeated")
        service = "ssh-connection"
        if sim.choose_bool(p_other_service):
            service = ("ssh-userauth", "junk", "")[sim.choose(3)]
        m = sim.choose(6)
        if m == 0:
            s.auth_none(user, service); ops.append(("none", user, service))
        elif m in (1, 2):
            s.auth_password(user, "pw%d" % i, service, change=(sim.choose(8) == 0)); ops.append(("password", user, service))
        elif m == 3:
            s.auth_pk_probe(user, key, service=service); ops.append(("pk-probe", user, service))
        elif m == 4:
            s.auth_pk(user, key, service=service, alter=(None, None, "sigbytes")[sim.choose(3)]); ops.append(("pk", user, service))
        else:
            s.auth_kbdint(user, service); ops.append(("kbdint", user, service))
            if sim.choose(3):
                if sim.choose(2):
                    s.settle(5)
                s.info_response(("x",))
                ops.append(("info-response",))
        if sim.choose(3):
            s.settle(5)
        if sim.choose(8) == 0 and s.tc.is_active() and s.ts.is_active():
            # a key re-exchange in the middle of the authentication phase must not reset anything
            s.settle(5)
            try:
                (s.tc, s.ts)[sim.choose(2)].renegotiate_keys()
                ops.append(("rekey",))
                sim.probe("rekey_during_auth_phase")
            except Exception:
                pass
    s.settle(20)
    desc = {"weights": weights, "ops": ops[:40]}
    check(sim, s, desc)
    s.close()
    return {"sample": desc, "nontrivial": True, "counts": ["n:%d" % (n // 6)]}


def check(sim, s, desc, prop="C16"):
    sent = [d for d in s.sent if d["sent"]]
    req_idx = -1
    pinned = None
    refused = None          # reason the connection must already be ending
    failures = 0
    disconnected = False
    success = False
    for seq, kind, ptype, data in s.server_events():
        if kind == "rx" and ptype == 50:
            req_idx += 1
            if req_idx >= len(sent):
                raise RuntimeError("server received more requests than were sent")
            d = sent[req_idx]
            if refused is None and not success:
                if d["service"] != "ssh-connection":
                    refused = "foreign-service"
                elif pinned is not None and d["user"] != pinned:
                    refused = "username-change"
                else:
                    pinned = d["user"]
                if refused:
                    sim.probe("refusal_case_" + refused)
        elif kind == "cb" and data[2] == "auth":
            _, _, _, method, user, extra, result = data
            if refused is not None:
                raise Violation((prop, "callback-after-" + refused, method),
                                "application was asked to check %s for %r although the connection had to end (%s)"
                                % (method, user, refused), desc)
            if failures >= 10:
                raise Violation((prop, "callback-after-failure-cap", method),
                                "application was asked to check %s after %d failed attempts" % (method, failures), desc)
            if user is not None and user != pinned:
                raise Violation((prop, "callback-for-unpinned-user", method),
                                "callback for user %r although the connection is pinned to %r" % (user, pinned), desc)
        elif kind == "tx" and ptype == 51:
            methods, partial = parse_failure(data)
            if not partial:
                failures += 1
                if failures > 10:
                    raise Violation((prop, "more-than-ten-failures"), "an 11th USERAUTH_FAILURE was sent", desc)
        elif kind == "tx" and ptype == 52:
            if refused is not None:
                raise Violation((prop, "success-after-" + refused), "USERAUTH_SUCCESS after a request that had to end the connection (%s)" % refused, desc)
            if failures >= 10:
                raise Violation((prop, "success-after-failure-cap"), "USERAUTH_SUCCESS after ten failures", desc)
            success = True
        elif kind == "tx" and ptype == 1:
            disconnected = True
    if refused is not None and not disconnected:
        raise Violation((prop, "no-disconnect-after-" + refused),
                        "a request with a %s was not answered with DISCONNECT" % refused.replace("-", " "), desc)
    if refused is not None and s.ts.is_authenticated():
        raise Violation((prop, "authenticated-after-" + refused), "server reports authenticated", desc)
    if failures >= 10 and not disconnected:
        raise Violation((prop, "no-disconnect-after-ten-failures"), "ten failures but no DISCONNECT", desc)
    if failures >= 10:
        sim.probe("failure_cap_reached")
    if success:
        sim.probe("success_seen")
    sim.probe("requests_processed", req_idx + 1)
