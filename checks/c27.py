"""C27 -- remote SFTP files behave like local Python binary files.

SFTP engine (full wiring: real SFTPClient and SFTPServer over a real channel of
a simulated transport pair).  Generated: programs of up to 40 steps over
read(n) / read() / readline(n) / readlines / write / seek / tell / flush /
truncate / close on one SFTPFile for every mode and several buffer sizes,
pipelined or not, with initial contents containing CR/LF mixes; the same program
runs on a local file opened with the same mode over a twin copy.
Oracle: returned data and tell() values equal step by step, an operation the
local file refuses is refused remotely too, and after close the served file is
byte-identical to the twin.

A failing program is minimised at the level of the program (drop operations,
shrink sizes, simplify mode parameters) and the fingerprint is taken from the
minimal program, so one root cause is one fingerprint."""
import os
import random

from sim.core import Violation
from sim.sftpsim import SftpSession

PROPERTY = "C27"
LEVEL = "exploration"
BUDGET = {"quick": {"runs": 1200, "wall": 45}, "thorough": {"runs": 60000, "wall": 570}}
# local Python mode -> mode string given to SFTPClient.open.  paramiko documents "x" as a flag
# ("only succeed if the file was created") that has no direct Python counterpart, so Python's
# "x" / "x+" (exclusive creation, write / read-write) are spelled "wx" / "w+x" remotely.
MODES = (("r", "r"), ("r+", "r+"), ("w", "w"), ("w+", "w+"), ("a", "a"), ("a+", "a+"), ("x", "wx"), ("x+", "w+x"))
BUFSIZES = (-1, 0, 1, 2, 17, 1024, 65536)
RULE = ("Each run: 3 files on one connection; per file a mode from r r+ w w+ a a+ x x+, bufsize from %r, pipelined "
        "on/off, initial contents 0..100 KiB with CR/LF mix, program of 1-40 operations; scheduling and link latency "
        "from the seed." % (BUFSIZES,))
COMPONENTS = {"real": ["SFTPClient, SFTPFile, BufferedFile, SFTPServer, SFTPHandle, transports and channel",
                       "scratch directory on the real filesystem"],
              "harness": ["SFTPServerInterface over the scratch directory (modelled on tests/_stub_sftp.py)"],
              "simulated": ["socket", "clock", "scheduling", "entropy"]}
ASSUMPTIONS = ["not generated: text/universal-newline modes, seeks to a negative position (clamped to 0), truncate() "
               "without a size, truncate on a file not open for writing",
               "not compared: return values of write/seek/flush/truncate (paramiko documents none) and exception classes",
               "Python's mode x / x+ is compared with paramiko's wx / w+x (x is documented as a flag there)"]
MINIMIZE_CASES = True


def sim_kw(seed):
    return {"max_steps": 6_000_000, "max_time": 7200.0}


def content(seed, n):
    r = random.Random(seed)
    out = bytearray()
    while len(out) < n:
        k = r.randrange(6)
        if k == 0:
            out += b"\r\n"
        elif k == 1:
            out += b"\n"
        elif k == 2:
            out += b"\r"
        else:
            out += bytes(65 + r.randrange(26) for _ in range(1 + r.randrange(40)))
    return bytes(out[:n])


def gen_program(sim, size_hint, writable):
    prog = []
    n = 1 + sim.choose(40)
    for _ in range(n):
        k = sim.choose(16)
        if k < 3:
            prog.append(["read", (0, 1, 7, 100, 5000, 70000)[sim.choose(6)]])
        elif k == 3:
            prog.append(["read", None])
        elif k < 6:
            prog.append(["readline", (None, None, 1, 5, 80, 100000)[sim.choose(6)]])
        elif k == 6:
            prog.append(["readlines"])
        elif k < 10:
            prog.append(["write", (0, 1, 10, 100, 1000, 40000)[sim.choose(6)], sim.choose(1000)])
        elif k < 12:
            whence = sim.choose(3)
            if whence == 0:
                off = sim.choose(size_hint + 20)
            elif whence == 1:
                off = sim.choose(50) - 10
            else:
                off = -sim.choose(min(size_hint, 50) + 1) if sim.choose(3) else sim.choose(10)
            prog.append(["seek", off, whence])
        elif k == 12:
            prog.append(["tell"])
        elif k == 13:
            prog.append(["flush"])
        elif k == 14 and writable:
            prog.append(["truncate", sim.choose(size_hint + 30)])
        elif k == 15 and writable:
            # back to (or next to) the offset at which the latest write began: with the write still in the
            # buffer this is the file's own idea of "where I am" before the pending bytes
            # ("end": the offset a non-append file would be at after that write, i.e. start + length)
            prog.append(["seekback", (0, 0, 0, 1, -1, "end", "end")[sim.choose(7)]])
        else:
            prog.append(["tell"])
    return prog


def gen_case(sim):
    mi = sim.choose(len(MODES))
    size = (0, 10, 300, 5000, 100000)[sim.choose(5)]
    mode = MODES[mi][0]
    exists = not mode.startswith("x") or sim.choose(6) == 0
    program = gen_program(sim, size, mode != "r")
    if mode.startswith("a") and "+" in mode and size >= 10 and sim.choose(3) == 0:
        # read somewhere, append, then read from the offset a non-append file would be at after that write: the
        # served handle must not take the position it remembers from the read for where the append went
        program = [["seek", sim.choose(size // 2), 0], ["read", 1 + sim.choose(6)], ["write", 1 + sim.choose(5), sim.choose(1000)],
                   ["seekback", "end"], ["read", (None, 3, 100)[sim.choose(3)]]] + program[:10]
    return {"mode": mode, "bufsize": BUFSIZES[sim.choose(len(BUFSIZES))], "pipelined": bool(sim.choose(3) == 0),
            "size": size, "data_seed": sim.choose(1000), "exists": exists,
            "program": program}


def apply(f, op, ref):
    """ref: the local file (used to keep generated seeks at non-negative positions)."""
    name = op[0]
    if name == "read":
        return f.read() if op[1] is None else f.read(op[1])
    if name == "readline":
        return f.readline() if op[1] is None else f.readline(op[1])
    if name == "readlines":
        return list(f.readlines())
    if name == "write":
        f.write(content(op[2], op[1]))
        return None
    if name == "seek":
        f.seek(op[1], op[2])
        return None
    if name == "tell":
        return f.tell()
    if name == "flush":
        f.flush()
        return None
    if name == "truncate":
        f.truncate(op[1])
        return None
    if name == "close":
        f.close()
        return None


def short(op):
    if op[0] == "write":
        return "write(%d)" % op[1]
    return "%s(%s)" % (op[0], ",".join(repr(x) for x in op[1:]))


def bufclass(b):
    return "unbuffered" if b <= 0 else "line" if b == 1 else "buffered"


def pattern(case, upto=None):
    prog = case["program"] if upto is None else case["program"][:upto + 1]
    return "%s %s%s: %s" % (case["mode"], bufclass(case["bufsize"]), " pipelined" if case["pipelined"] else "",
                            " ".join(op[0] for op in prog))


def scenario(sim):
    sim.p_switch = (0.02, 0.1)[sim.choose(2)]
    s = SftpSession(sim, latency=(0.0, 0.002)[sim.choose(2)])
    try:
        if getattr(sim, "case", None) is not None:
            run_case(sim, s, sim.case, 0)
            return {"nontrivial": True}
        first = None
        for fi in range(3):
            case = gen_case(sim)
            first = first or case
            run_case(sim, s, case, fi)
    finally:
        s.close()
    # distinct = distinct (mode, buffer class, pipelined, operation-kind sequence) of the first file's program
    return {"sample": describe(first), "nontrivial": len(first["program"]) > 1, "case_key": pattern(first),
            "counts": [first["mode"], bufclass(first["bufsize"])]}


def describe(case):
    d = dict(case)
    d["program"] = [short(o) for o in case["program"]]
    return d


def clamp_seek(op, lf, lpath):
    """Keep a generated seek at a non-negative target (negative positions are not generated)."""
    off, whence = op[1], op[2]
    if whence == 1:
        try:
            cur = lf.tell()
        except Exception:
            cur = 0
        if cur + off < 0:
            off = -cur
    elif whence == 2:
        try:
            lf.flush()
        except Exception:
            pass
        size = os.path.getsize(lpath)
        if size + off < 0:
            off = -size
    elif off < 0:
        off = 0
    return ["seek", off, whence]


def run_case(sim, s, case, fi):
    mode = case["mode"]
    rmode = dict(MODES)[mode]
    bufsize = case["bufsize"]
    pipelined = case["pipelined"]
    name = "f%d.bin" % fi
    for p in (s.rpath(name), s.lpath(name)):
        if os.path.exists(p):
            os.unlink(p)
    if case["exists"]:
        s.put_both(name, content(case["data_seed"], case["size"]))
    prog = [list(op) for op in case["program"]] + [["close"]]
    ctx = "(mode %s, bufsize %d, pipelined %s)" % (mode, bufsize, pipelined)

    def fail(fp, msg, upto=None):
        raise Violation(fp, msg, {"case": case, "program": [short(o) for o in case["program"]],
                                  "pattern": pattern(case, upto)})

    lerr = rerr = None
    lf = rf = None
    try:
        # append modes: the unbuffered local file is the reference (positions of Python's *buffered* append
        # files after a seek depend on its own buffer state, which is no part of file semantics)
        lf = open(s.lpath(name), mode + "b", buffering=0 if mode.startswith("a") else -1)
    except Exception as e:
        lerr = e
    try:
        rf = s.sftp.open(name, rmode + "b", bufsize)
    except Exception as e:
        rerr = e
    if (lerr is None) != (rerr is None):
        cleanup(lf, rf)
        fail(("C27", "open-differs", mode, "local-fails" if lerr else "remote-fails"),
             "open(%r): local %r, remote %r" % (mode, lerr, rerr))
    if lerr is not None:
        sim.probe("open_refused_both")
        return
    if pipelined:
        rf.set_pipelined(True)
    last_write = last_len = 0
    for i, op in enumerate(prog):
        if op[0] == "seek":
            op = clamp_seek(op, lf, s.lpath(name))
        elif op[0] == "seekback":
            op = ["seek", max(0, last_write + (last_len if op[1] == "end" else op[1])), 0]
            sim.probe("seek_to_start_of_latest_write")
        elif op[0] == "write":
            try:
                last_write = lf.tell()
                last_len = op[1]
            except Exception:
                pass
        lres = rres = None
        lex = rex = None
        try:
            lres = apply(lf, op, None)
        except Exception as e:
            lex = e
        try:
            rres = apply(rf, op, None)
        except Exception as e:
            rex = e
        if (lex is None) != (rex is None):
            cleanup(lf, rf)
            fail(("C27", "raises-differs", op[0], "local-raises" if lex else "remote-raises", pattern(case, i)),
                 "step %d %s: local %s, remote %s %s"
                 % (i, short(op), "raised %r" % lex if lex else "returned", "raised %r" % rex if rex else "returned", ctx), i)
        if lex is None and op[0] in ("read", "readline", "readlines", "tell") and lres != rres:
            cleanup(lf, rf)
            fail(("C27", "result-differs", op[0], pattern(case, i)),
                 "step %d %s: local %s, remote %s %s" % (i, short(op), brief(lres), brief(rres), ctx), i)
        sim.probe("ops_compared")
    with open(s.lpath(name), "rb") as f:
        want = f.read()
    with open(s.rpath(name), "rb") as f:
        got = f.read()
    if want != got:
        i = 0
        while i < min(len(want), len(got)) and want[i] == got[i]:
            i += 1
        fail(("C27", "final-contents-differ", pattern(case)),
             "after close: local file %d bytes, served file %d bytes, first difference at %d %s"
             % (len(want), len(got), i, ctx))


# ---------------------------------------------------------------- case minimisation
def same_class(fp_a, fp_b):
    """Candidates are accepted while the kind of divergence stays the same."""
    n = 3 if fp_a[1] in ("result-differs", "raises-differs") else 2
    return list(fp_a[:n]) == list(fp_b[:n])


def case_candidates(case):
    """Yield simpler variants of a failing case, most aggressive first."""
    prog = case["program"]
    n = len(prog)

    def with_(**kw):
        c = dict(case)
        c.update(kw)
        return c
    # drop chunks of operations, then single operations
    size = n // 2
    while size >= 1:
        for i in range(0, n, size):
            yield with_(program=prog[:i] + prog[i + size:])
        size //= 2
    if case["pipelined"]:
        yield with_(pipelined=False)
    for small in (0, 10, 300, 5000):
        if case["size"] > small:
            yield with_(size=small)
    # canonical buffer sizes: one representative per class
    for canon in (0, 1, 1024):
        if bufclass(canon) == bufclass(case["bufsize"]) and case["bufsize"] != canon:
            yield with_(bufsize=canon)
    for i, op in enumerate(prog):
        if op[0] in ("read", "readline") and op[1] not in (None, 1):
            for v in (None, 1, 7, 100):
                if v != op[1] and (v is None or op[1] is None or v < op[1]):
                    yield with_(program=prog[:i] + [[op[0], v]] + prog[i + 1:])
        if op[0] == "write" and op[1] > 1:
            for v in (1, 10, 100, 1000):
                if v < op[1]:
                    yield with_(program=prog[:i] + [["write", v, op[2]]] + prog[i + 1:])
        if op[0] == "truncate" and op[1] > 0:
            for v in (0, 5):
                if v < op[1]:
                    yield with_(program=prog[:i] + [["truncate", v]] + prog[i + 1:])
        if op[0] == "seek" and op[1] not in (0, 1):
            for v in (0, 1, 5):
                if abs(v) < abs(op[1]):
                    yield with_(program=prog[:i] + [["seek", v, op[2]]] + prog[i + 1:])


def brief(v):
    if isinstance(v, (bytes, bytearray)):
        return "%d bytes %r%s" % (len(v), bytes(v[:24]), "..." if len(v) > 24 else "")
    if isinstance(v, str):
        return "str %r%s" % (v[:24], "..." if len(v) > 24 else "")
    if isinstance(v, list):
        return "%d lines" % len(v)
    return repr(v)


def cleanup(lf, rf):
    for f in (lf, rf):
        try:
            if f is not None:
                f.close()
        except Exception:
            pass
