"""C27 -- remote SFTP files behave like local Python binary files.

SFTP engine (full wiring: real SFTPClient and SFTPServer over a real channel).
Generated: programs of up to 40 steps over read(n) / read() / readline(n) /
readlines / write / seek / tell / flush / truncate / close on one SFTPFile for
every mode and several buffer sizes, pipelined or not, with initial contents
containing CR/LF mixes; the same program runs on a local file opened with the
same mode over a twin copy.
Oracle: returned data and tell() values equal step by step, an operation the
local file refuses is refused remotely too, and after close the served file is
byte-identical to the twin."""
import io
import os

from sim import core
from sim.core import Violation
from sim.sftpsim import SftpSession

PROPERTY = "C27"
LEVEL = "exploration"
BUDGET = {"quick": {"runs": 1600, "wall": 55}, "thorough": {"runs": 60000, "wall": 570}}
MODES = ("r", "r+", "w", "w+", "a", "a+", "x", "x+")
BUFSIZES = (-1, 0, 1, 2, 17, 1024, 65536)
RULE = ("Each run: mode from %r, bufsize from %r, pipelined on/off, initial contents 0..100 KiB with CR/LF mix, program "
        "of 1-40 operations; 3 files per connection." % (MODES, BUFSIZES))
COMPONENTS = {"real": ["SFTPClient, SFTPFile, BufferedFile, SFTPServer, SFTPHandle, transports and channel",
                       "scratch directory on the real filesystem"],
              "harness": ["SFTPServerInterface over the scratch directory (modelled on tests/_stub_sftp.py)"],
              "simulated": ["socket", "clock", "scheduling", "entropy"]}
ASSUMPTIONS = ["not generated: text/universal-newline modes, negative absolute seeks, truncate() without a size",
               "not compared: return values of write/seek/flush/truncate (paramiko documents none) and exception classes"]


def sim_kw(seed):
    return {"max_steps": 6_000_000, "max_time": 7200.0}


def content(sim, n):
    r = sim.payload
    out = bytearray()
    while len(out) < n:
        k = r.randrange(6)
        if k == 0:
            out += b"\r\n"
        elif k == 1:
            out += b"\n"
        elif k == 2:
            out += b"\r"
        else:
            out += bytes(65 + r.randrange(26) for _ in range(1 + r.randrange(40)))
    return bytes(out[:n])


def gen_program(sim, size_hint):
    prog = []
    n = 1 + sim.choose(40)
    for _ in range(n):
        k = sim.choose(16)
        if k < 3:
            prog.append(("read", (0, 1, 7, 100, 5000, 70000)[sim.choose(6)]))
        elif k == 3:
            prog.append(("read", None))
        elif k < 6:
            prog.append(("readline", (None, None, 1, 5, 80, 100000)[sim.choose(6)]))
        elif k == 6:
            prog.append(("readlines",))
        elif k < 10:
            prog.append(("write", content(sim, (0, 1, 10, 100, 1000, 40000)[sim.choose(6)])))
        elif k < 12:
            whence = sim.choose(3)
            if whence == 0:
                off = sim.choose(size_hint + 20)
            elif whence == 1:
                off = sim.choose(50) - 10
            else:
                off = -sim.choose(min(size_hint, 50) + 1) if sim.choose(3) else sim.choose(10)
            prog.append(("seek", off, whence))
        elif k == 12:
            prog.append(("tell",))
        elif k == 13:
            prog.append(("flush",))
        elif k == 14:
            prog.append(("truncate", sim.choose(size_hint + 30)))
        else:
            prog.append(("tell",))
    prog.append(("close",))
    return prog


def apply(f, op, local):
    name = op[0]
    if name == "read":
        return f.read() if op[1] is None else f.read(op[1])
    if name == "readline":
        return f.readline() if op[1] is None else f.readline(op[1])
    if name == "readlines":
        return list(f.readlines())
    if name == "write":
        f.write(op[1]); return None
    if name == "seek":
        f.seek(op[1], op[2]); return None
    if name == "tell":
        return f.tell()
    if name == "flush":
        f.flush(); return None
    if name == "truncate":
        f.truncate(op[1]); return None
    if name == "close":
        f.close(); return None


def short(op):
    if op[0] == "write":
        return "write(%d)" % len(op[1])
    return "%s(%s)" % (op[0], ",".join(repr(x) for x in op[1:]))


def scenario(sim):
    sim.p_switch = (0.02, 0.1)[sim.choose(2)]
    s = SftpSession(sim, latency=(0.0, 0.002)[sim.choose(2)])
    samples = []
    for fi in range(3):
        samples.append(one_file(sim, s, fi))
    s.close()
    return {"sample": samples[0], "nontrivial": True, "counts": [samples[0]["mode"]]}


def one_file(sim, s, fi):
    mode = MODES[sim.choose(len(MODES))]
    bufsize = BUFSIZES[sim.choose(len(BUFSIZES))]
    pipelined = bool(sim.choose(3) == 0)
    size = (0, 10, 300, 5000, 100000)[sim.choose(5)]
    name = "f%d.bin" % fi
    exists = not mode.startswith("x") or sim.choose(6) == 0
    data = content(sim, size)
    if exists:
        s.put_both(name, data)
    prog = gen_program(sim, size)
    desc = {"mode": mode, "bufsize": bufsize, "pipelined": pipelined, "initial_size": size if exists else None,
            "program": [short(o) for o in prog]}
    # open
    lerr = rerr = None
    try:
        lf = open(s.lpath(name), mode + "b")
    except Exception as e:
        lerr = e
    try:
        rf = s.sftp.open(name, mode, bufsize)
    except Exception as e:
        rerr = e
    if (lerr is None) != (rerr is None):
        if lerr is None:
            lf.close()
        else:
            rf.close()
        raise Violation(("C27", "open-differs", mode, "local-fails" if lerr else "remote-fails"),
                        "open(%r): local %r, remote %r" % (mode, lerr, rerr), desc)
    if lerr is not None:
        sim.probe("open_refused_both")
        return desc
    if pipelined:
        rf.set_pipelined(True)
    kinds = []
    for i, op in enumerate(prog):
        kinds.append(op[0])
        lres = rres = None
        lex = rex = None
        try:
            lres = apply(lf, op, True)
        except Exception as e:
            lex = e
        try:
            rres = apply(rf, op, False)
        except Exception as e:
            rex = e
        pattern = "%s: %s" % (mode, " -> ".join(dedupe(kinds)[-3:]))
        if (lex is None) != (rex is None):
            cleanup(lf, rf)
            raise Violation(("C27", "raises-differs", op[0], "local-raises" if lex else "remote-raises", mode),
                            "step %d %s: local %s, remote %s (mode %s, bufsize %d, pipelined %s)"
                            % (i, short(op), "raised %r" % lex if lex else "returned", "raised %r" % rex if rex else "returned",
                               mode, bufsize, pipelined), desc)
        if lex is None and op[0] in ("read", "readline", "readlines", "tell") and lres != rres:
            cleanup(lf, rf)
            raise Violation(("C27", "result-differs", op[0], pattern),
                            "step %d %s: local %s, remote %s (mode %s, bufsize %d, pipelined %s)"
                            % (i, short(op), brief(lres), brief(rres), mode, bufsize, pipelined), desc)
        sim.probe("ops_compared")
    with open(s.lpath(name), "rb") as f:
        want = f.read()
    with open(s.rpath(name), "rb") as f:
        got = f.read()
    if want != got:
        i = 0
        while i < min(len(want), len(got)) and want[i] == got[i]:
            i += 1
        raise Violation(("C27", "final-contents-differ", "%s: %s" % (mode, " -> ".join(dedupe(kinds)[-4:]))),
                        "after close: local file %d bytes, served file %d bytes, first difference at %d (mode %s, bufsize %d, pipelined %s)"
                        % (len(want), len(got), i, mode, bufsize, pipelined), desc)
    return desc


def dedupe(kinds):
    out = []
    for k in kinds:
        if not out or out[-1] != k:
            out.append(k)
    return out


def brief(v):
    if isinstance(v, (bytes, bytearray)):
        return "%d bytes %r%s" % (len(v), bytes(v[:24]), "..." if len(v) > 24 else "")
    if isinstance(v, list):
        return "%d lines" % len(v)
    return repr(v)


def cleanup(lf, rf):
    for f in (lf, rf):
        try:
            f.close()
        except Exception:
            pass
