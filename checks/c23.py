"""C23 -- live channel ids are unique within a transport.

CHAN engine: both transports start with their channel counter within 64 of
2^24; several application tasks open session channels locally while the peer
opens forwarded-tcpip channels towards the same transport, some channels are
closed again, others stay open across the wrap-around.
Oracle: whenever an open completes, the ids of all channels the harness holds
open on that transport are pairwise distinct and below 2^24, and the two
peers agree on each channel's number pair."""
from paramiko.ssh_exception import SSHException, ChannelException

import paramiko

from sim import ssh, core
from sim.core import Violation
from sim.net import Link

PROPERTY = "C23"
LEVEL = "exploration"
BUDGET = {"quick": {"runs": 700, "wall": 55}, "thorough": {"runs": 30000, "wall": 570}}
RULE = ("Each run: counters preset to 2^24 - k (k in 0..64) on both transports, 2-4 client opener tasks and 1-2 server "
        "opener tasks (forwarded-tcpip towards the client) doing 3-12 opens each, a seeded subset closed again "
        "immediately / later / never, latency 0-20 ms, seeded schedule.")
COMPONENTS = {"real": ["both Transports/Channels unmodified"], "simulated": ["socket", "clock", "scheduling", "entropy"]}
ASSUMPTIONS = ["the channel counter is preset through the transport's attribute before the session starts (no 2^24 opens are performed)"]
MAXID = 1 << 24


def sim_kw(seed):
    kw = {"max_steps": 4_000_000, "max_time": 3600.0}
    if seed % 2 == 0:
        # statement- and bytecode-level pre-emption inside the id allocation and the two open paths
        import paramiko.transport as t_mod
        kw.update(trace_files={t_mod.__file__}, trace_opcodes=True,
                  trace_funcs={"_next_channel", "open_channel", "_parse_channel_open", "_parse_channel_open_success",
                               "_parse_channel_open_failure", "_unlink_channel"})
    return kw


def scenario(sim):
    sim.p_switch = (0.05, 0.3, 0.7)[sim.choose(3)]
    if sim.trace_files:
        sim.p_preempt = (0.0, 0.02, 0.1)[sim.choose(3)]
        sim.p_preempt_store = (0.0, 0.05, 0.2)[sim.choose(3)]
        sim.max_preempt = (3, 8, 40)[sim.choose(3)]
    lat = (0.0, 0.001, 0.02)[sim.choose(3)]
    link = Link(sim, latency=(lat, lat))
    p = ssh.Pair(sim, link=link)
    kc, ks = sim.choose(65), sim.choose(65)
    p.tc._channel_counter = (MAXID - kc) % MAXID
    p.ts._channel_counter = (MAXID - ks) % MAXID
    p.start(timeout=60); p.wait_server(); p.auth_password()
    held = {"c": {}, "s": {}}        # side -> {local id: channel object} for channels nobody closed
    problems = []
    desc = {"counter_offsets": [kc, ks], "latency": lat}
    incoming = []                    # channels opened by the server, as seen by the client

    def handler(chan, origin, server_addr):
        register("c", chan, "peer-opened")
        incoming.append(chan)
    p.tc.request_port_forward("127.0.0.1", 2222, handler)

    def register(side, chan, how):
        cid = chan.get_id()
        if not (0 <= cid < MAXID):
            problems.append(("id-out-of-range", side, cid, how))
        other = held[side].get(cid)
        if other is not None and other is not chan and not other.closed:
            problems.append(("duplicate-live-id", side, cid, how))
        held[side][cid] = chan
        sim.probe("opens_registered")
        if cid < 64:
            sim.probe("ids_after_wraparound")

    def release(side, chan):
        cid = chan.get_id()
        if held[side].get(cid) is chan:
            del held[side][cid]

    nlocal = 3 + sim.choose(10)

    def client_opener(k):
        for i in range(nlocal):
            try:
                ch = p.tc.open_session(timeout=60)
            except (SSHException, EOFError) as e:
                problems.append(("open-failed", "c", repr(e), "local"))
                return
            register("c", ch, "local")
            fate = sim.choose(4)
            if fate == 0:
                release("c", ch); ch.close()
            elif fate == 1:
                sim.sleep(0.01); release("c", ch); ch.close()

    def server_opener(k):
        for i in range(3 + sim.choose(6)):
            try:
                ch = p.ts.open_forwarded_tcpip_channel(("1.2.3.4", 1000 + i), ("127.0.0.1", 2222))
            except (SSHException, EOFError) as e:
                problems.append(("open-failed", "s", repr(e), "local"))
                return
            register("s", ch, "local")
            if sim.choose(3) == 0:
                release("s", ch); ch.close()

    stop = [False]

    def acceptor():
        while not stop[0]:
            c = p.ts.accept(0.2)
            if c is not None:
                register("s", c, "peer-opened")

    acc = sim.spawn(acceptor, "acceptor")
    tasks = []
    # in a third of the runs the peer (buggy or hostile) sends stray CHANNEL_OPEN_FAILURE messages naming channels
    # that are open and confirmed; they must not free those ids for re-use
    stray = sim.choose(3) == 0
    desc["stray_open_failures"] = stray
    for rnd in range(2 if stray else 1 + sim.choose(2)):
        if rnd and stray:
            ssh.quiesce(sim, [link], (), settle=0.2, limit=20)
            strayed = {"c": [], "s": []}
            for victim_side, sender in (("c", p.ts), ("s", p.tc)):
                live_ids = [cid for cid, c in sorted(held[victim_side].items()) if not c.closed]
                k0 = sim.choose(len(live_ids)) if live_ids else 0
                for cid in live_ids[k0:k0 + 1 + sim.choose(4)]:
                    strayed[victim_side].append(cid)
                    m = paramiko.Message()
                    m.add_byte(bytes([92]))
                    m.add_int(cid)
                    m.add_int(1)
                    m.add_string("stray")
                    m.add_string("en")
                    sender.packetizer.send_message(m)
                    sim.fault("stray_open_failure_for_open_channel")
        if rnd:
            # a whole trip round the 24-bit space later: the counter is back just below 2^24 while the
            # long-lived channels opened around the previous wrap are still open and must be stepped over
            ssh.quiesce(sim, [link], (), settle=0.2, limit=20)
            p.tc._channel_counter = (MAXID - 1 - sim.choose(6)) % MAXID
            p.ts._channel_counter = (MAXID - 1 - sim.choose(6)) % MAXID
            if stray:
                # ... and this trip arrives just below the ids named by the stray messages
                ssh.quiesce(sim, [link], (), settle=0.2, limit=20)
                if strayed["c"]:
                    p.tc._channel_counter = (strayed["c"][0] - sim.choose(3)) % MAXID
                if strayed["s"]:
                    p.ts._channel_counter = (strayed["s"][0] - sim.choose(3)) % MAXID
            sim.probe("second_trip_round_the_id_space")
        batch = [sim.spawn(client_opener, "copen%d" % k, k) for k in range(2 + sim.choose(3))]
        batch += [sim.spawn(server_opener, "sopen%d" % k, k) for k in range(1 + sim.choose(2))]
        tasks += batch
        end = sim.now + 300
        while any(t.state != core.DONE for t in batch) and sim.now < end:
            sim.sleep(0.25)
    ssh.quiesce(sim, [link], (), settle=0.2, limit=20)
    stop[0] = True
    sim.join_task(acc, 5)
    if any(t.state != core.DONE for t in tasks):
        raise Violation(("C23", "open-stalled"), "an opener task is still blocked", desc)
    for kind, side, what, how in problems:
        if kind == "open-failed":
            raise Violation(("C23", "open-failed", side), "%s open on %s failed: %s" % (how, side, what), desc)
        raise Violation(("C23", kind, how), "%s on transport %s: id %r (%s open)" % (kind, side, what, how), desc)
    # the two views agree: for every channel held on one side, the peer holds one whose remote id is this id
    for side, other in (("c", "s"), ("s", "c")):
        for cid, chan in held[side].items():
            if chan.closed:
                continue
            peers = [c for c in held[other].values() if c.remote_chanid == cid and chan.remote_chanid == c.get_id()]
            if len(peers) != 1:
                raise Violation(("C23", "peers-disagree-on-channel-numbers"),
                                "channel %d on %s (remote %d) has %d counterparts on %s" % (cid, side, chan.remote_chanid, len(peers), other), desc)
    live = {s: sorted(cid for cid, c in held[s].items() if not c.closed) for s in ("c", "s")}
    desc["live_ids"] = {s: live[s][:12] for s in live}
    p.close()
    return {"sample": desc, "nontrivial": True, "counts": ["wrap" if any(x < 64 for x in live["c"] + live["s"]) else "nowrap"]}
