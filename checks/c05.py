"""C05 -- negotiation picks the client's first mutually supported algorithm.

LINK engine, handshake only.  Both sides get a seeded subset and order of
algorithm names per category (public SecurityOptions + disabled_algorithms,
strict_kex flag, available host keys); in a third of the runs one side (the
adversary) additionally advertises unknown names and misplaced marker
pseudo-algorithms.  Oracle: reference RFC 4253 7.1 selection computed from the
two KEXINIT payloads as seen on the wire by the independent tap."""
from paramiko import Transport
from paramiko.ssh_exception import IncompatiblePeer, SSHException

from sim import ssh, wiretap, core
from sim.core import Violation
from sim.net import Link

PROPERTY = "C05"
LEVEL = "exploration"
BUDGET = {"quick": {"runs": 2400, "wall": 50}, "thorough": {"runs": 80000, "wall": 560}}
RULE = ("Each run: independent random subset+order of kex / host-key / cipher / MAC / compression names on "
        "client and server, random disabled_algorithms, strict-kex flags and host-key sets; 1/3 of runs add "
        "unknown names and misplaced ext-info/kex-strict markers on one side.")
COMPONENTS = {"real": ["paramiko Transport negotiation and key exchange on both peers"],
              "simulated": ["socket", "clock", "scheduling", "entropy"],
              "oracle": ["sim/wiretap.negotiate over KEXINIT payloads parsed by the tap"]}
ASSUMPTIONS = ["The side given unknown names/markers is the adversary; only the other side's behaviour is judged in those runs (both are judged otherwise)."]

CATS = {
    "kex": tuple(k for k in Transport._preferred_kex if "group16" not in k),
    "ciphers": tuple(Transport._preferred_ciphers),
    "macs": tuple(Transport._preferred_macs),
    "keys": tuple(Transport._preferred_keys),
    "compression": ("none", "zlib", "zlib@openssh.com"),
}
OPT = {"kex": "kex", "ciphers": "ciphers", "macs": "digests", "keys": "key_types", "compression": "compression"}
HOSTKEYS = ("rsa1", "ecdsa256_1", "ecdsa384_1", "ecdsa521_1", "ed25519_1")


def sim_kw(seed):
    return {"max_steps": 2_000_000, "max_time": 3600.0}


def subset_order(sim, names, keep_bias):
    pool = list(names)
    out = []
    # random order: repeatedly draw
    while pool:
        out.append(pool.pop(sim.choose(len(pool))))
    k = len(out)
    mode = sim.choose(4)
    if mode == 0:
        n = k
    elif mode == 1:
        n = 1 + sim.choose(min(3, k))
    else:
        n = 1 + sim.choose(k)
    return out[:n]


def configure_side(sim, t, cheap_kex, keep_gex=False):
    conf = {}
    disabled = {}
    for cat, names in CATS.items():
        if cat == "kex" and cheap_kex:
            names = tuple(n for n in names if "group14" not in n and ("exchange" not in n or keep_gex))
        lst = subset_order(sim, names, 0.5)
        setattr(t.get_security_options(), OPT[cat], lst)
        # disable a few (possibly listed) names through the constructor-level mechanism
        dis = [n for n in names if sim.choose(6) == 0]
        if dis and len([x for x in lst if x not in dis]) == 0 and sim.choose(3):
            dis = []
        disabled[cat] = dis
        conf[cat] = lst
    t.disabled_algorithms = disabled
    conf["disabled"] = disabled
    return conf


def scenario(sim):
    sim.p_switch = (0.02, 0.2)[sim.choose(2)]
    link = Link(sim, latency=((0.0, 0.01)[sim.choose(2)],) * 2)
    nkeys = 1 + sim.choose(len(HOSTKEYS))
    pool = list(HOSTKEYS)
    hks = [pool.pop(sim.choose(len(pool))) for _ in range(nkeys)]
    strict_c, strict_s = bool(sim.choose(4)), bool(sim.choose(4))
    adversary = None
    asym = False
    if sim.choose(3) == 0:
        adversary = ("client", "server")[sim.choose(2)]
        asym = bool(sim.choose(2))
    pkw = {}
    if asym:
        # the adversary's KEXINIT carries DIFFERENT lists for the two directions (legal per RFC 4253,
        # never produced by paramiko itself): rewritten before it is sent
        def mutate_out(pk, payload):
            if payload[0] != 20:
                return [payload]
            r = wiretap.Reader(payload)
            r.byte()
            cookie = bytes(r.d[r.i:r.i + 16]); r.i += 16
            lists = [r.namelist() for _ in range(10)]
            tail = r.rest()
            for cat, (i, j) in (("ciphers", (2, 3)), ("macs", (4, 5)), ("compression", (6, 7))):
                k = (i, j)[sim.choose(2)]
                lists[k] = subset_order(sim, CATS[cat], 0.5)
            sim.fault("asymmetric_kexinit")
            out = bytes([20]) + cookie
            for l in lists:
                b = ",".join(l).encode()
                out += len(b).to_bytes(4, "big") + b
            return [out + tail]
        plog = []
        key = "client_pk" if adversary == "client" else "server_pk"
        pkw[key] = ssh.byzantine_packetizer("c" if adversary == "client" else "s", plog, mutate_out=mutate_out)
    p = ssh.tapped_pair(sim, link=link, host_keys=tuple(hks),
                        client_kw={"strict_kex": strict_c}, server_kw={"strict_kex": strict_s}, **pkw)
    cheap = sim.choose(4) != 0
    # a server that was never given a file of primes (load_server_moduli not called) cannot do group exchange: what
    # it advertises and what it is prepared to select must still be the same list
    no_moduli = sim.choose(4) == 0 and adversary != "server"     # (the judged side only; junk names do not survive the pruning)
    if no_moduli:
        p.ts._modulus_pack = None
        sim.probe("server_without_moduli")
    cc = configure_side(sim, p.tc, cheap, keep_gex=no_moduli)
    sc = configure_side(sim, p.ts, cheap, keep_gex=no_moduli)
    if no_moduli and all("exchange" in k for k in sc["kex"]):
        # a server that can do nothing but group exchange and has no primes cannot run at all: not a negotiation case
        sc["kex"] = sc["kex"] + ["curve25519-sha256@libssh.org"]
        p.ts.get_security_options().kex = sc["kex"]
        sc["disabled"]["kex"] = [k for k in sc["disabled"].get("kex", []) if k != "curve25519-sha256@libssh.org"]
        p.ts.disabled_algorithms = sc["disabled"]
    if adversary is not None:
        t = p.tc if adversary == "client" else p.ts
        junk = ["made-up-kex@example.com", "ext-info-s", "ext-info-c", "kex-strict-s-v00@openssh.com",
                "kex-strict-c-v00@openssh.com", "kex-strict-c-v01@openssh.com", "", "curve25519-sha256"]
        extra = [junk[sim.choose(len(junk))] for _ in range(1 + sim.choose(3))]
        lst = list(t._preferred_kex)
        for e in extra:
            lst.insert(sim.choose(len(lst) + 1), e)
        t._preferred_kex = tuple(lst)         # instance-level override: this side is not judged
        for cat, attr in (("ciphers", "_preferred_ciphers"), ("macs", "_preferred_macs")):
            if sim.choose(2):
                l2 = list(getattr(t, attr))
                l2.insert(sim.choose(len(l2) + 1), "unknown-%s@example.com" % cat)
                setattr(t, attr, tuple(l2))
    desc = {"client": cc, "server": sc, "hostkeys": hks, "strict": [strict_c, strict_s], "adversary": adversary,
            "asymmetric_lists": asym, "server_has_moduli": not no_moduli}
    exc_c = None
    try:
        p.start(timeout=60)
    except Exception as e:
        exc_c = e
    p.wait_server(5.0)
    ssh.quiesce(sim, [link], (), settle=0.2, limit=20)
    exc_s = p.ts.get_exception()
    tap = p.tap
    if tap.error is not None and adversary is None:
        raise Violation(("C05", "tap-error"), "wiretap could not follow the session: %s" % (tap.error,), desc)
    if not tap.kexinits[0] or not tap.kexinits[1]:
        raise RuntimeError("KEXINITs not seen on the wire")
    ck, sk = tap.kexinits[0][0], tap.kexinits[1][0]
    try:
        ref = wiretap.negotiate(ck, sk, mac_needed_for_aead=True)   # MAC is a category like any other
    except wiretap.TapError as e:
        ref = None
        why = str(e)
    judged = [("client", p.tc, exc_c), ("server", p.ts, exc_s)]
    judged = [j for j in judged if j[0] != adversary]
    kex_msgs = [pk.ptype for d, pk in tap.log if pk.ptype is not None and 30 <= pk.ptype <= 49]
    if ref is None:
        sim.probe("incompatible_cases")
        for name, t, exc in judged:
            if t.is_active() and t.initial_kex_done:
                raise Violation(("C05", "completed-although-incompatible", name),
                                "%s completed the exchange although %s" % (name, why), desc)
            if not isinstance(exc, IncompatiblePeer):
                # the peer may have dropped the connection first; only an explicit wrong
                # verdict by this side is a violation
                if exc is not None and not isinstance(exc, (EOFError, OSError)) :
                    if isinstance(exc, SSHException) and adversary is not None:
                        continue
                    raise Violation(("C05", "wrong-error-for-incompatible", name, type(exc).__name__),
                                    "%s failed with %r instead of IncompatiblePeer (%s)" % (name, exc, why), desc)
        if adversary is None and kex_msgs:
            raise Violation(("C05", "kex-continues-after-incompatible"), "kex messages %s followed an incompatible KEXINIT pair" % kex_msgs[:4], desc)
    else:
        sim.probe("compatible_cases")
        for name, t, exc in judged:
            if isinstance(exc, IncompatiblePeer) or isinstance(t.get_exception(), IncompatiblePeer):
                raise Violation(("C05", "incompatible-although-common-algorithms", name),
                                "%s raised IncompatiblePeer although every category has a common algorithm: %r" % (name, exc or t.get_exception()), desc)
            parsed = bool(tap.agreed_kex[0 if name == "client" else 1])
            if not (t.is_active() and t.initial_kex_done) and not (adversary is not None and parsed):
                if adversary is not None:
                    continue   # the adversary's junk may legitimately break the exchange on its own side
                raise Violation(("C05", "exchange-failed", name, type(exc).__name__ if exc else "none"),
                                "%s did not complete the exchange: %r / %r" % (name, exc, t.get_exception()), desc)
            client = name == "client"
            got = {
                "kex": (tap.agreed_kex[0 if client else 1] or [None])[0],
                "hostkey": t.host_key_type,
                "enc_c2s": t.local_cipher if client else t.remote_cipher,
                "enc_s2c": t.remote_cipher if client else t.local_cipher,
                "mac_c2s": t.local_mac if client else t.remote_mac,
                "mac_s2c": t.remote_mac if client else t.local_mac,
                "comp_c2s": t.local_compression if client else t.remote_compression,
                "comp_s2c": t.remote_compression if client else t.local_compression,
            }
            for k, v in got.items():
                if v != ref[k]:
                    raise Violation(("C05", "wrong-selection", name, k.split("_")[0]),
                                    "%s selected %s=%r, RFC 4253 7.1 gives %r" % (name, k, v, ref[k]), desc)
                if v in wiretap.PSEUDO:
                    raise Violation(("C05", "marker-selected", name), "%s selected marker %r" % (name, v), desc)
            conf = cc if client else sc
            dis = conf["disabled"]
            for cat, keys in (("kex", ("kex",)), ("keys", ("hostkey",)), ("ciphers", ("enc_c2s", "enc_s2c")),
                              ("macs", ("mac_c2s", "mac_s2c")), ("compression", ("comp_c2s", "comp_s2c"))):
                for k in keys:
                    if got[k] in dis.get(cat, ()):
                        raise Violation(("C05", "disabled-algorithm-selected", name, cat),
                                        "%s agreed on %s=%r which it had disabled" % (name, k, got[k]), desc)
    if ref is not None and adversary is None and sim.choose(3) == 0 and p.tc.is_active() and p.ts.is_active():
        rekey_with_new_order(sim, p, link, desc, cc, sc)
    p.close()
    return {"sample": desc, "nontrivial": True,
            "counts": ["compatible" if ref else "incompatible", "adversary:%s" % adversary]}


def rekey_with_new_order(sim, p, link, desc, cc, sc):
    """The preferences are put into another order (same names, so still compatible) and the keys are exchanged again:
    the second negotiation is decided by the second pair of KEXINITs alone, not by what the first one chose."""
    for t, conf in ((p.tc, cc), (p.ts, sc)):
        for cat in CATS:
            lst = list(getattr(t.get_security_options(), OPT[cat]))
            out = []
            while lst:
                out.append(lst.pop(sim.choose(len(lst))))
            setattr(t.get_security_options(), OPT[cat], out)
            conf[cat] = out
    try:
        p.auth_password()
        (p.tc, p.ts)[sim.choose(2)].renegotiate_keys()
    except Exception as e:
        raise Violation(("C05", "rekey-failed", type(e).__name__),
                        "re-key after reordering the preferences failed: %r / client %r / server %r"
                        % (e, p.tc.get_exception(), p.ts.get_exception()), desc)
    ssh.quiesce(sim, [link], (), settle=0.2, limit=20)
    tap = p.tap
    if len(tap.kexinits[0]) < 2 or len(tap.kexinits[1]) < 2:
        raise RuntimeError("second KEXINIT pair not seen")
    try:
        ref = wiretap.negotiate(tap.kexinits[0][1], tap.kexinits[1][1], mac_needed_for_aead=True)
    except wiretap.TapError as e:
        raise RuntimeError("reordered lists cannot be incompatible: %s" % e)
    desc["rekey_reference"] = ref
    for name, t in (("client", p.tc), ("server", p.ts)):
        client = name == "client"
        if not t.is_active():
            raise Violation(("C05", "rekey-failed", name), "%s went inactive in the re-key: %r" % (name, t.get_exception()), desc)
        got = {
            "kex": (tap.agreed_kex[0 if client else 1] or [None, None])[-1],
            "hostkey": t.host_key_type,
            "enc_c2s": t.local_cipher if client else t.remote_cipher,
            "enc_s2c": t.remote_cipher if client else t.local_cipher,
            "mac_c2s": t.local_mac if client else t.remote_mac,
            "mac_s2c": t.remote_mac if client else t.local_mac,
            "comp_c2s": t.local_compression if client else t.remote_compression,
            "comp_s2c": t.remote_compression if client else t.local_compression,
        }
        for k, v in got.items():
            if v != ref[k]:
                raise Violation(("C05", "wrong-selection", name, k.split("_")[0], "in-rekey"),
                                "re-key: %s selected %s=%r, RFC 4253 7.1 over the second KEXINIT pair gives %r" % (name, k, v, ref[k]), desc)
    sim.probe("rekey_with_new_order_checked")
