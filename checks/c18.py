"""C18 -- a client refuses server-initiated actions it did not enable.

CHAN engine: the client is an unmodified Transport driven through its public
API (request_x11, request_forward_agent, request_port_forward,
cancel_port_forward, optionally with a subsystem handler registered); the
server is a real Transport whose application task sends global requests, opens
channels of every kind and sends channel requests on open channels, at seeded
points of the history (some racing the client's enable/cancel calls).
Oracle: reference 'enabled' state evaluated in the client's own event order
over its received messages and its replies."""
import struct

import paramiko
from paramiko.ssh_exception import SSHException, ChannelException
from paramiko.server import SubsystemHandler

from sim import ssh, core
from sim.core import Violation
from sim.net import Link
from sim.wiretap import Reader

PROPERTY = "C18"
LEVEL = "exploration"
BUDGET = {"quick": {"runs": 1200, "wall": 55}, "thorough": {"runs": 40000, "wall": 570}}
RULE = ("Each run: 3-10 steps interleaving client enable/cancel calls (x11 with a server that grants or denies, agent, "
        "port forward granted or denied, cancel) with server-initiated global requests (any name, want_reply both), "
        "channel opens of kind session/x11/auth-agent/forwarded-tcpip/direct-tcpip/junk and channel requests "
        "exec/shell/subsystem/pty-req/env/window-change/x11-req/auth-agent-req; some steps race each other; in a "
        "third of the runs the client has a subsystem handler registered.")
COMPONENTS = {"real": ["client Transport/Channel unmodified (victim)", "server Transport used through its public API as the adversary"],
              "simulated": ["socket", "clock", "scheduling", "entropy"]}
ASSUMPTIONS = ["a feature counts as enabled from the moment the enabling API call returned successfully until the cancelling call returned"]
KINDS = ("session", "x11", "auth-agent@openssh.com", "forwarded-tcpip", "direct-tcpip", "junk@example.com")
REQS = ("exec", "shell", "subsystem", "pty-req", "env", "window-change", "x11-req", "auth-agent-req@openssh.com")


def sim_kw(seed):
    return {"max_steps": 3_000_000, "max_time": 3600.0}


class Srv(ssh.ScriptedServer):
    grant_x11 = True
    grant_fwd = True

    def check_channel_x11_request(self, channel, single, proto, cookie, screen):
        self._rec("x11_request", self.grant_x11)
        return self.grant_x11

    def check_channel_forward_agent_request(self, channel):
        self._rec("agent_request")
        return True

    def check_port_forward_request(self, address, port):
        self._rec("port_forward", address, port, self.grant_fwd)
        return (port or 4242) if self.grant_fwd else False


class EchoSubsystem(SubsystemHandler):
    started = []

    def start_subsystem(self, name, transport, channel):
        EchoSubsystem.started.append(name)


def scenario(sim):
    sim.p_switch = (0.02, 0.2)[sim.choose(2)]
    lat = (0.0, 0.01, 0.1)[sim.choose(3)]
    link = Link(sim, latency=(lat, lat))
    server = Srv(sim)
    p = ssh.Pair(sim, link=link, server=server)
    p.start(timeout=60)
    p.wait_server()
    p.auth_password()
    with_subsys = sim.choose(3) == 0
    EchoSubsystem.started = []
    if with_subsys:
        p.tc.set_subsystem_handler("echo", EchoSubsystem)
    ch = p.tc.open_session(timeout=30)
    sch = p.ts.accept(30)
    ch.settimeout(30); sch.settimeout(30)
    marks = []          # (seq, what) client-side API events
    accepted = []
    steps = []
    errors = []

    def mark(what):
        marks.append((sim.record("client_api", what), what))

    def client_step(op):
        try:
            if op == "x11-granted" or op == "x11-denied":
                server.grant_x11 = op == "x11-granted"
                c2 = p.tc.open_session(timeout=30)
                c2.settimeout(30)
                try:
                    c2.request_x11()
                    mark("x11-enabled")
                except SSHException:
                    mark("x11-request-denied")
            elif op == "agent":
                ch.request_forward_agent(lambda c: accepted.append(("agent-handler", c)))
                mark("agent-enabled")
            elif op == "fwd-granted" or op == "fwd-denied":
                server.grant_fwd = op == "fwd-granted"
                try:
                    p.tc.request_port_forward("127.0.0.1", 2222)
                    mark("tcp-enabled")
                except SSHException:
                    mark("tcp-request-denied")
            elif op == "fwd-cancel":
                mark("tcp-cancel-called")
                p.tc.cancel_port_forward("127.0.0.1", 2222)
                mark("tcp-cancel-returned")
        except Exception as e:
            errors.append(("client", op, e))

    def server_step(op):
        try:
            if op[0] == "global":
                p.ts.global_request(op[1], None, wait=op[2])
            elif op[0] == "open":
                kind = op[1]
                try:
                    if kind == "x11":
                        c = p.ts.open_x11_channel(("1.2.3.4", 6000))
                    elif kind == "forwarded-tcpip":
                        c = p.ts.open_forwarded_tcpip_channel(("1.2.3.4", 5555), ("127.0.0.1", 2222))
                    elif kind == "auth-agent@openssh.com":
                        c = p.ts.open_forward_agent_channel()
                    elif kind == "direct-tcpip":
                        c = p.ts.open_channel("direct-tcpip", ("10.0.0.1", 80), ("1.2.3.4", 5555), timeout=30)
                    else:
                        c = p.ts.open_channel(kind, timeout=30)
                    c.close()
                except (ChannelException, SSHException):
                    pass
            elif op[0] == "chanreq":
                # a fresh channel per request (a refused request closes the requesting side's channel)
                c2 = p.tc.open_session(timeout=30)
                s2 = p.ts.accept(30)
                if s2 is None:
                    return
                s2.settimeout(30)
                try:
                    r = op[1]
                    if r == "exec":
                        s2.exec_command("id")
                    elif r == "shell":
                        s2.invoke_shell()
                    elif r == "subsystem":
                        s2.invoke_subsystem("echo")
                    elif r == "pty-req":
                        s2.get_pty()
                    elif r == "env":
                        s2.set_environment_variable("A", "b")
                    elif r == "window-change":
                        s2.resize_pty(80, 24)
                    elif r == "x11-req":
                        s2.request_x11()
                    else:
                        s2.request_forward_agent(None)
                except (SSHException, EOFError):
                    pass
        except Exception as e:
            errors.append(("server", op, e))

    cops = ("x11-granted", "x11-denied", "agent", "fwd-granted", "fwd-denied", "fwd-cancel")
    for i in range(3 + sim.choose(8)):
        if sim.choose(5) < 2:
            op = cops[sim.choose(len(cops))]
            cs = ("client", op)
        else:
            k = sim.choose(3)
            if k == 0:
                cs = ("server", ("global", ("tcpip-forward", "keepalive@openssh.com", "anything@x", "cancel-tcpip-forward")[sim.choose(4)], bool(sim.choose(2))))
            elif k == 1:
                cs = ("server", ("open", KINDS[sim.choose(len(KINDS))]))
            else:
                cs = ("server", ("chanreq", REQS[sim.choose(len(REQS))]))
        steps.append(cs)
        race = None
        if cs[0] == "client" and sim.choose(3) == 0:
            race = ("open", ("x11", "forwarded-tcpip", "auth-agent@openssh.com")[sim.choose(3)])
        if race:
            steps.append(("server-racing", race))
            t1 = sim.spawn(client_step, "client-op", cs[1])
            t2 = sim.spawn(server_step, "server-op", race)
            sim.join_task(t1, 120); sim.join_task(t2, 120)
        elif cs[0] == "client":
            client_step(cs[1])
        else:
            server_step(cs[1])
    ssh.quiesce(sim, [link], (), settle=0.2, limit=30)
    while True:
        c = p.tc.accept(0.01)
        if c is None:
            break
        accepted.append(("accept", c))
    desc = {"steps": steps, "subsystem_handler_on_client": with_subsys, "latency": lat}
    check(sim, p, marks, desc)
    if EchoSubsystem.started:
        raise Violation(("C18", "client-started-subsystem-for-server"), "client ran a subsystem handler at the server's request", desc)
    for who, op, e in errors:
        if not isinstance(e, (SSHException, EOFError, OSError)):
            raise RuntimeError("unexpected harness error in %s %r: %r" % (who, op, e))
    if not p.tc.is_active():
        sim.probe("client_ended_session")
    p.close()
    return {"sample": desc, "nontrivial": True, "counts": [s[0] for s in steps]}


def check(sim, p, marks, desc):
    # merge client rx/tx events and API marks by sequence number
    ev = [(e[0], e[3], e[4], e[5]) for e in p.plog if e[2] == "c"]
    ev += [(s, "api", None, w) for s, w in marks]
    ev.sort(key=lambda x: x[0])
    x11 = agent = tcp = False
    tcp_grace = False
    pending_open = {}      # server's channel number -> (kind, allowed)
    pending_req = []       # (local chan id, request name) awaiting a reply
    for seq, kind, ptype, data in ev:
        if kind == "api":
            if data == "x11-enabled":
                x11 = True
            elif data == "agent-enabled":
                agent = True
            elif data == "tcp-enabled":
                tcp = True; tcp_grace = False
            elif data == "tcp-cancel-called":
                tcp_grace = True
            elif data == "tcp-cancel-returned":
                tcp = False; tcp_grace = False
        elif kind == "rx" and ptype == 80:
            r = Reader(data); r.byte()
            name = r.string(); want = r.boolean()
            if want:
                pending_open[("global", seq)] = name
        elif kind == "tx" and ptype == 81:
            raise Violation(("C18", "global-request-approved"), "client answered a server's global request with REQUEST_SUCCESS", desc)
        elif kind == "rx" and ptype == 90:
            r = Reader(data); r.byte()
            k = r.string().decode("utf-8", "replace"); sender = r.u32()
            allowed = (k == "x11" and x11) or (k == "auth-agent@openssh.com" and agent) or (k == "forwarded-tcpip" and tcp)
            pending_open[sender] = (k, allowed)
            sim.probe("server_open_" + ("allowed" if allowed else "to-refuse"))
        elif kind == "tx" and ptype == 91:
            r = Reader(data); r.byte(); recipient = r.u32()
            k, allowed = pending_open.pop(recipient, ("?", False))
            if not allowed:
                state = "x11=%s agent=%s tcp=%s" % (x11, agent, tcp)
                raise Violation(("C18", "server-opened-channel-accepted", k.split("@")[0]),
                                "client confirmed a server-opened %r channel that was not enabled (%s)" % (k, state), desc)
            sim.probe("enabled_open_accepted")
        elif kind == "tx" and ptype == 92:
            r = Reader(data); r.byte(); recipient = r.u32()
            pending_open.pop(recipient, None)
        elif kind == "rx" and ptype == 98:
            r = Reader(data); r.byte()
            chan = r.u32(); name = r.string().decode("utf-8", "replace"); want = r.boolean()
            if name in REQS or name in ("exec", "shell", "subsystem", "pty-req", "env", "window-change", "x11-req"):
                pending_req.append((chan, name, want))
                sim.probe("server_channel_request_" + name.split("@")[0])
        elif kind == "tx" and ptype == 99:
            r = Reader(data); r.byte()
            # recipient is the SERVER's channel number; find which request is being approved
            name = pending_req[0][1] if pending_req else "?"
            raise Violation(("C18", "channel-request-approved", name.split("@")[0]),
                            "client answered a server's %r channel request with CHANNEL_SUCCESS" % name, desc)
        elif kind == "tx" and ptype == 100:
            if pending_req:
                pending_req.pop(0)
    # every global request that wanted a reply must have been refused explicitly (if the session survived)
    if p.tc.is_active():
        wants = sum(1 for k in pending_open if isinstance(k, tuple))
        fails = sum(1 for s, kind, ptype, d in ev if kind == "tx" and ptype == 82)
        if fails < wants:
            raise Violation(("C18", "global-request-unanswered"), "%d global requests wanted a reply, %d REQUEST_FAILURE sent" % (wants, fails), desc)
