"""C38 -- peer protocol violations surface as SSH exceptions, not internal errors.

LINK/CHAN engine with a byzantine peer: a real Transport whose k-th outgoing
message (key exchange, NEWKEYS/EXT_INFO, service, every auth message, every
connection message, channel requests) is structurally mutated before
encryption -- field values replaced, truncation at and inside field
boundaries, invalid UTF-8 in text fields, wrong types, oversized counts --
or whose banner is garbage; both victim roles.
Oracle: whatever the victim's connect/start/auth/channel calls raise, and what
get_exception() returns afterwards, is an SSHException, EOFError or OSError."""
import socket
import struct

import paramiko
from paramiko.ssh_exception import SSHException

from sim import ssh, core
from sim.core import Violation
from sim.net import Link

PROPERTY = "C38"
LEVEL = "exploration"
BUDGET = {"quick": {"runs": 3000, "wall": 55}, "thorough": {"runs": 120000, "wall": 570}}
RULE = ("Each run: victim role, target = k-th outgoing message of the adversary in a scripted full session (kex, auth by "
        "password/publickey/keyboard-interactive, channel open, pty/env/exec/shell/subsystem/x11 requests, data both "
        "ways, exit status, global requests, port forward, close) or the banner; one structural mutation drawn from "
        "{truncate at/inside a field, invalid UTF-8, huge/zero/negative integers, bad bool, type byte swap, junk tail, "
        "random bytes, packet framing: no payload / padding-length byte 255, length-1, length}; in 1/4 of the runs the "
        "target is the first message of a drawn TYPE instead of the k-th message; in 1/5 an earlier message of the "
        "adversary is replayed in front of the target instead of mutating it; user key Ed25519/RSA/ECDSA.")
COMPONENTS = {"real": ["victim Transport/AuthHandler/Channel/kex classes unmodified", "adversary: real Transport with one outgoing message mutated"],
              "simulated": ["socket", "clock", "scheduling", "entropy"]}
ASSUMPTIONS = ["allowed: SSHException (and subclasses), EOFError, OSError (socket errors, timeouts)"]
ALLOWED = (SSHException, EOFError, OSError)


def sim_kw(seed):
    return {"max_steps": 3_000_000, "max_time": 7200.0}


def on_hang(sim, exc):
    """A transport thread that loops without end on a peer's message never reports anything through
    the API; classified by the paramiko frame it spins in."""
    msg = str(exc)
    if "cpu spin" in msg and sim.spin_info:
        who, frames = sim.spin_info
        if any(f.split(":")[-1] == "safe_string" for f in frames[:3]):
            # util.safe_string builds its result by repeated bytes concatenation: quadratic, so a DEBUG message whose
            # lying length field is zero-padded by Message.get_bytes to several 100 KiB keeps the thread busy for
            # longer than the watchdog allows.  Slow, finite, and no failure surfaces: nothing for C38 to judge.
            return core.Inconclusive("slow-safe_string-on-padded-field")
        pf = [f for f in frames if not f.startswith(("threading.py", "core.py", "shims.py", "message.py"))]
        where = pf[0].split(":")[0] + ":" + pf[0].split(":")[-1] if pf else "?"
        return Violation(("C38", "peer-message-makes-transport-spin", where),
                         "%s loops without end in %s while handling a peer message (%s)" % (who, where, " < ".join(frames[:5])))
    return None


# field schemas (after the type byte): t text, s string, u uint32, b bool, y byte, l name-list, * generic rest
SCHEMA = {1: "utt", 2: "s", 4: "btt", 5: "t", 6: "t", 7: "u*", 50: "ttt*", 51: "lb", 53: "tt", 60: "tts*", 61: "u*",
          80: "tb*", 90: "tuuu*", 91: "uuuu", 92: "uutt", 93: "uu", 94: "us", 95: "uus", 96: "u", 97: "u", 98: "utb*",
          99: "u", 100: "u"}


def parse_fields(payload):
    """-> list of (kind, start, end) over payload (type byte excluded from the list)."""
    t = payload[0]
    out = []
    i = 1
    n = len(payload)
    if t == 20:
        out.append(("cookie", 1, min(17, n)))
        i = min(17, n)
        schema = "llllllllllbu"
    else:
        schema = SCHEMA.get(t, "*")
    for k in schema:
        if i >= n:
            break
        if k == "*":
            # generic: length-prefixed strings where plausible, else u32, else bytes
            while i < n:
                if i + 4 <= n:
                    L = struct.unpack_from(">I", payload, i)[0]
                    if L <= n - i - 4:
                        out.append(("s", i, i + 4 + L)); i += 4 + L
                        continue
                    out.append(("u", i, i + 4)); i += 4
                else:
                    out.append(("y", i, i + 1)); i += 1
            break
        if k in "tsl":
            if i + 4 > n:
                break
            L = struct.unpack_from(">I", payload, i)[0]
            e = min(n, i + 4 + L)
            out.append((k, i, e)); i = e
        elif k == "u":
            out.append(("u", i, min(n, i + 4))); i = min(n, i + 4)
        else:
            out.append((k, i, i + 1)); i += 1
    return out


def mutate(sim, payload, prefer=None):
    fields = parse_fields(payload)
    op = sim.choose(11)
    if prefer is not None and sim.choose(3) == 0:
        op = prefer
    if op == 10:         # inside a nested blob (a key or a signature): well framed outside, impossible values inside
        blobs = []
        for f in fields:
            if f[0] in "ts" and f[2] - f[1] > 12:
                inner = payload[f[1] + 4:f[2]]
                parts = []
                i = 0
                while i + 4 <= len(inner):
                    L = struct.unpack_from(">I", inner, i)[0]
                    if L > len(inner) - i - 4:
                        break
                    parts.append(inner[i + 4:i + 4 + L]); i += 4 + L
                if i == len(inner) and len(parts) >= 2:
                    blobs.append((f, parts))
        if blobs:
            f, parts = blobs[sim.choose(len(blobs))]
            k = 1 + sim.choose(len(parts) - 1)
            v = parts[k]
            how = sim.choose(5)
            if how == 0 and v:
                v = v[:-1] + bytes([v[-1] ^ 1])          # e.g. an even RSA exponent
            elif how == 1:
                v = bytes(len(v))
            elif how == 2:
                v = v[:-1]
            elif how == 3:
                v = b"\x80" + v[1:] if v else b"\x80"  # negative number / impossible point prefix
            else:
                v = b""
            parts = parts[:k] + [v] + parts[k + 1:]
            inner = b"".join(struct.pack(">I", len(x)) + x for x in parts)
            return payload[:f[1]] + struct.pack(">I", len(inner)) + inner + payload[f[2]:], "nested-blob-field"
        op = 8
    if op == 9:          # framing: the packet around the message (padding length byte, no payload at all)
        kind = ("no-payload", "padding-255", "padding-covers-payload", "padding-equals-length")[sim.choose(4)]
        if kind == "no-payload":
            return b"", "frame-no-payload"
        return FrameOp(payload, kind), "frame-" + kind
    rnd = sim.payload
    if not fields:
        op = 8
    if op == 0:          # truncate at a field boundary
        f = fields[sim.choose(len(fields))]
        return payload[:f[1]], "truncate-at-boundary"
    if op == 1:          # truncate inside a field
        f = fields[sim.choose(len(fields))]
        cut = f[1] + (1 + sim.choose(max(1, f[2] - f[1] - 1))) if f[2] - f[1] > 1 else f[1]
        return payload[:cut], "truncate-inside-field"
    if op == 2:          # invalid UTF-8 in a string-like field
        ss = [f for f in fields if f[0] in "tsl"]
        if ss:
            f = ss[sim.choose(len(ss))]
            L = f[2] - f[1] - 4
            bad = (b"\xff\xfe\xfd" * (L // 3 + 1))[:max(L, 1)]
            return payload[:f[1]] + struct.pack(">I", len(bad)) + bad + payload[f[2]:], "invalid-utf8"
        op = 8
    if op == 3:          # integer extremes
        us = [f for f in fields if f[0] == "u" and f[2] - f[1] == 4]
        if us:
            f = us[sim.choose(len(us))]
            v = (0, 1, 0xFFFFFFFF, 0x80000000, 0x7FFFFFFF, rnd.getrandbits(32))[sim.choose(6)]
            return payload[:f[1]] + struct.pack(">I", v) + payload[f[2]:], "integer-extreme"
        op = 8
    if op == 4:          # string length field lies (huge / slightly too long)
        ss = [f for f in fields if f[0] in "tsl"]
        if ss:
            f = ss[sim.choose(len(ss))]
            L = f[2] - f[1] - 4
            v = (0x7FFFFFFF, 0xFFFFFFFF, L + 1, L + 1000, 0x00100000)[sim.choose(5)]
            return payload[:f[1]] + struct.pack(">I", v) + payload[f[1] + 4:], "string-length-lies"
        op = 8
    if op == 5:          # empty string / empty list
        ss = [f for f in fields if f[0] in "tsl"]
        if ss:
            f = ss[sim.choose(len(ss))]
            return payload[:f[1]] + struct.pack(">I", 0) + payload[f[2]:], "empty-string"
        op = 8
    if op == 6:          # type byte swap within a plausible family
        t = payload[0]
        fam = [x for x in (1, 2, 3, 4, 5, 6, 7, 20, 21, 30, 31, 32, 33, 34, 50, 51, 52, 53, 60, 61, 80, 81, 82, 90, 91, 92,
                           93, 94, 95, 96, 97, 98, 99, 100) if x != t]
        return bytes([fam[sim.choose(len(fam))]]) + payload[1:], "type-swap"
    if op == 7:          # junk tail / message reduced to its type byte
        if sim.choose(2):
            return payload + rnd.randbytes(1 + sim.choose(40)), "junk-tail"
        return payload[:1], "type-byte-only"
    # random byte replacement
    b = bytearray(payload)
    for _ in range(1 + sim.choose(4)):
        if len(b) > 1:
            b[1 + rnd.randrange(len(b) - 1)] = rnd.randrange(256)
    return bytes(b), "random-bytes"


class FrameOp(bytes):
    """The payload unchanged, plus an order for the packet framing (carried out by frame_out)."""

    def __new__(cls, payload, kind):
        o = bytes.__new__(cls, payload)
        o.kind = kind
        return o


BANNERS = (b"SSH-2.0\r\n", b"SSH-1.5-old\r\n", b"\xff\xfe\xfd garbage\r\n", b"SSH-2.0-x" + b"A" * 300 + b"\r\n",
           b"SSH-\r\n", b"\r\n" * 3 + b"SSH-2.0-ok\r\n", b"SSH-9.9-future\r\n", b"HTTP/1.1 400 Bad Request\r\n\r\n",
           b"SSH-2.0-x\xc3\x28\r\n", b"SSH2.0-nodash\r\n")


def frame_of(exc):
    tb = getattr(exc, "__traceback__", None)
    best = "?"
    while tb is not None:
        fn = tb.tb_frame.f_code.co_filename
        if "/paramiko/" in fn:
            best = "%s:%s" % (fn.rsplit("/", 1)[1], tb.tb_frame.f_code.co_name)
        tb = tb.tb_next
    return best


def scenario(sim):
    sim.p_switch = (0.02, 0.2)[sim.choose(2)]
    victim_role = ("client", "server")[sim.seed % 2]
    adv_side = "s" if victim_role == "client" else "c"
    banner_case = sim.choose(12) == 0
    # a quarter of the runs aims at the first messages (key exchange, EXT_INFO, service accept), where few messages
    # carry many fields
    target = sim.choose(45) if sim.choose(4) else sim.choose(9)
    # one run in four aims at the first message of a given TYPE instead of the k-th message: types that are rare in
    # a session but rich in fields would otherwise hardly ever be the k-th
    target_type = None
    if sim.choose(4) == 0:
        if adv_side == "s":      # what a server sends
            target_type = (7, 7, 7, 6, 6, 51, 53, 60, 91, 92, 81, 82, 98, 99, 100, 52, 2, 4, 80, 31, 31, 33, 20)[sim.choose(23)]
        else:                    # what a client sends
            target_type = (5, 50, 50, 61, 90, 98, 98, 80, 96, 97, 93, 2, 4, 1, 30, 30, 20)[sim.choose(17)]
    state = {"n": 0, "done": None}

    sent = []
    replay_case = sim.choose(5) == 0     # instead of mutating: an earlier message of the adversary is sent once more

    def mutate_out(pk, payload):
        k = state["n"]
        state["n"] += 1
        hit = (k == target) if target_type is None else (payload[0] == target_type)
        if not banner_case and hit and state["done"] is None and replay_case and sent:
            old = sent[sim.choose(len(sent))]
            state["done"] = (old[0], "replayed-before-type-%d" % payload[0])
            sim.fault("mutated_replay-earlier-message")
            return [old, payload]
        sent.append(payload)
        if not banner_case and hit and state["done"] is None:
            new, kind = mutate(sim, payload, prefer=2 if target_type in (7, 53, 51, 6, 5, 50, 98, 80) else None)
            state["done"] = (payload[0], kind)
            sim.fault("mutated_" + kind)
            if isinstance(new, FrameOp):
                state["frame"] = new.kind
                return [bytes(new)]
            return [new]
        return [payload]

    def frame_out(pk, payload, pkt):
        kind = state.pop("frame", None)
        if kind is None:
            return pkt
        plen = struct.unpack(">I", pkt[:4])[0]
        pad = {"padding-255": 255, "padding-covers-payload": (plen - 1) & 0xff, "padding-equals-length": plen & 0xff}[kind]
        return pkt[:4] + bytes([pad]) + pkt[5:]

    link = Link(sim, latency=((0.0, 0.01)[sim.choose(2)],) * 2)
    if banner_case:
        bn = BANNERS[sim.choose(len(BANNERS))]
        seen = {"first": True}

        def tap(lk, d, data):
            if d == (1 if adv_side == "s" else 0) and seen["first"]:
                seen["first"] = False
                nl = data.find(b"\n")
                state["done"] = ("banner", "banner")
                sim.fault("banner_replaced")
                return (bn + data[nl + 1:],)
            return (data,)
        link.tap = tap
    plog = []
    kw = {"server_pk" if adv_side == "s" else "client_pk": ssh.byzantine_packetizer(adv_side, plog, mutate_out=mutate_out,
                                                                                     frame_out=frame_out)}
    ukey = ssh.key(("ed25519_2", "rsa2", "ecdsa256_2")[sim.choose(3)])
    server = FullServer(sim, [ukey])
    kex = (None, None, "diffie-hellman-group1-sha1", "ecdh-sha2-nistp256", "diffie-hellman-group-exchange-sha256")[sim.choose(5)]
    p = ssh.Pair(sim, link=link, plog=plog, server=server, **kw)
    p.ts._modulus_pack = ssh.modulus_pack()
    if kex:
        for t in (p.tc, p.ts):
            ssh.configure(t, kex=kex)
    for t in (p.tc, p.ts):
        t.banner_timeout = 5
        t.handshake_timeout = 8
        t.auth_timeout = 8
        t.channel_timeout = 8
    raised = []          # (api, exception) seen by the victim's callers

    def v(role, api, fn, *a, **k):
        """run an API call in its own task with a bounded wait (a call that never returns is C13's
        business, not this property's); exceptions on the victim's side are judged"""
        box = {}

        def run():
            try:
                box["r"] = fn(*a, **k)
            except Exception as e:
                box["e"] = e
        t = sim.spawn(run, "api-" + api)
        sim.join_task(t, 12.0)
        if t.state != core.DONE:
            sim.probe("api_call_abandoned_" + api)
            return None
        if "e" in box:
            if role == victim_role:
                raised.append((api, box["e"]))
            return None
        return box.get("r")

    auth = ("password", "publickey", "interactive", "none", "publickey")[sim.choose(5)]
    if target_type == 7 and sim.choose(4):
        # the server's extension list is only looked at again when an RSA key authenticates
        auth, ukey = "publickey", ssh.key("rsa2")
        server.allowed_keys = [ukey]
    desc = {"victim": victim_role, "target_message_index": ("type-%d" % target_type if target_type is not None else target) if not banner_case else "banner",
            "auth": auth, "kex": kex}
    session(sim, p, v, auth, ukey)
    ssh.quiesce(sim, [link], (), settle=0.2, limit=20)
    desc["mutated"] = state["done"]
    victim = p.tc if victim_role == "client" else p.ts
    exc = victim.get_exception()
    judged = list(raised)
    if exc is not None:
        judged.append(("get_exception", exc))
    for api, e in judged:
        if not isinstance(e, ALLOWED):
            what = state["done"] or ("none", "none")
            import traceback as _tb
            desc["traceback"] = [l.strip().replace("\n", " | ") for l in _tb.format_tb(e.__traceback__)[-6:]]
            raise Violation(("C38", type(e).__name__, frame_of(e), victim_role),
                            "%s: %s surfaced %s: %r  (mutation: message type %s, %s)"
                            % (victim_role, api, type(e).__name__, e, what[0], what[1]), desc)
    for idx, name, e in sim.task_exceptions:
        if "T-" + victim_role in name and not isinstance(e, ALLOWED):
            raise Violation(("C38", "transport-thread-died", type(e).__name__, frame_of(e)), "transport thread died with %r" % (e,), desc)
    if state["done"] is None:
        sim.probe("session_shorter_than_target")
    else:
        sim.probe("mutated_type_%s" % (state["done"][0],))
    p.close()
    return {"sample": desc, "nontrivial": state["done"] is not None, "counts": [str(state["done"][1]) if state["done"] else "none"]}


class FullServer(ssh.ScriptedServer):
    def get_allowed_auths(self, username):
        return "password,publickey,keyboard-interactive"

    def get_banner(self):
        return ("welcome", "en")

    def check_auth_none(self, username):
        return paramiko.AUTH_FAILED

    def check_auth_interactive(self, username, submethods):
        q = paramiko.InteractiveQuery("title", "instr")
        q.add_prompt("Password:", False)
        return q

    def check_auth_interactive_response(self, responses):
        return paramiko.AUTH_SUCCESSFUL

    def check_channel_x11_request(self, *a):
        return True

    def check_channel_window_change_request(self, *a):
        return True

    def check_channel_forward_agent_request(self, channel):
        return True


def session(sim, p, v, auth, ukey):
    from sim.shims import Event
    p.server_event = Event()
    v("server", "start_server", p.ts.start_server, event=p.server_event, server=p.server)
    v("client", "start_client", p.tc.start_client, timeout=10)
    if not p.tc.is_active():
        p.server_event.wait(2.0)
        return
    p.server_event.wait(5.0)
    if auth == "password":
        v("client", "auth_password", p.tc.auth_password, "alice", "pw", fallback=False)
    elif auth == "publickey":
        p.server.allowed_keys = [ukey]
        v("client", "auth_publickey", p.tc.auth_publickey, "alice", ukey)
    elif auth == "interactive":
        v("client", "auth_interactive", p.tc.auth_interactive, "alice", lambda t, i, pr: ["x" for _ in pr])
    else:
        v("client", "auth_none", p.tc.auth_none, "alice")
        v("client", "auth_password", p.tc.auth_password, "alice", "pw", fallback=False)
    if not p.tc.is_authenticated():
        return
    ch = v("client", "open_session", p.tc.open_session, timeout=8)
    if ch is None:
        return
    sch = v("server", "accept", p.ts.accept, 8)
    ch.settimeout(8)
    if sch is not None:
        sch.settimeout(8)
    v("client", "get_pty", ch.get_pty)
    v("client", "set_environment_variable", ch.set_environment_variable, "A", "b")
    v("client", "resize_pty", ch.resize_pty, 100, 30)
    v("client", "request_x11", ch.request_x11)
    v("client", "exec_command", ch.exec_command, "id")
    v("client", "sendall", ch.sendall, b"x" * 300)
    if sch is not None:
        v("server", "recv", sch.recv, 300)
        v("server", "sendall", sch.sendall, b"y" * 200)
        v("server", "sendall_stderr", sch.sendall_stderr, b"e" * 50)
        v("server", "send_exit_status", sch.send_exit_status, 3)
    v("client", "recv", ch.recv, 200)
    v("client", "recv_stderr", ch.recv_stderr, 50)
    v("client", "global_request", p.tc.global_request, "hello@example.com", None, True)
    v("server", "global_request", p.ts.global_request, "srv@example.com", None, True)
    v("client", "request_port_forward", p.tc.request_port_forward, "127.0.0.1", 2200)
    if p.ts.is_active():
        fc = v("server", "open_forwarded_tcpip_channel", p.ts.open_forwarded_tcpip_channel, ("1.2.3.4", 5), ("127.0.0.1", 2200))
        if fc is not None:
            v("server", "fwd-close", fc.close)
    ch2 = v("client", "open_session2", p.tc.open_session, timeout=8)
    if ch2 is not None:
        ch2.settimeout(8)
        v("client", "invoke_shell", ch2.invoke_shell)
        v("client", "shutdown_write", ch2.shutdown_write)
        v("client", "close2", ch2.close)
    if sch is not None:
        v("server", "shutdown_write", sch.shutdown_write)
        v("server", "close", sch.close)
    v("client", "recv-eof", ch.recv, 10)
    v("client", "close", ch.close)
