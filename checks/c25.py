"""C25 -- sendall either delivers all data or raises.

CHAN engine: Channel.sendall / sendall_stderr of 1 B - 256 KiB issued before,
racing and after (i.e. while blocked on an exhausted window) one of:
shutdown_write by another task, local close, peer EOF, peer CLOSE, loss of the
transport; channel timeout None / 0 / finite; peer reading or not.
Oracle: a normal return implies that exactly those bytes left on that channel
and stream (from the wire-order log), unless the transport was already
inactive; the call ends within T_CALL virtual seconds (and a bounded number of
scheduler steps) after the event, unless it is legitimately waiting."""
import socket

from sim import ssh, core
from sim.chanwork import Workload, ChanSpec
from sim.core import Violation
from sim.wiretap import Reader

PROPERTY = "C25"
LEVEL = "exploration"
BUDGET = {"quick": {"runs": 1200, "wall": 55}, "thorough": {"runs": 50000, "wall": 570}}
T_CALL = 5.0
STEP_CAP = 200000
EVENTS = ("shutdown_write", "local-close", "peer-eof", "peer-close", "link-eof", "link-reset", "transport-close", "none")
PHASES = ("event-first", "racing", "call-first")
RULE = ("Each run: event in %r x phase in %r x stream (stdout/stderr) x size (1 B..256 KiB, relative to a 32 KiB window) x "
        "channel timeout (None / 0 / 1 s) x peer reading or not x sender role; schedule and latency from the seed." % (EVENTS, PHASES))
COMPONENTS = {"real": ["both Transports/Channels unmodified, public API"], "simulated": ["socket", "clock", "scheduling", "entropy"]}
ASSUMPTIONS = ["T_CALL = 5 virtual seconds after the event and at most %d scheduler steps of the calling task; a call with no "
               "timeout, an exhausted window, no reader and no event is legitimately blocked and is not generated" % STEP_CAP]


def sim_kw(seed):
    return {"max_steps": 3_000_000, "max_time": 3600.0}


def scenario(sim):
    sim.p_switch = (0.02, 0.1, 0.3)[sim.choose(3)]
    lat = (0.0, 0.005, 0.05)[sim.choose(3)]
    event = EVENTS[sim.choose(len(EVENTS))]
    phase = PHASES[sim.choose(len(PHASES))]
    stderr = bool(sim.choose(2))
    size = (1, 100, 32768 - 64, 32768, 32769, 100000, 262144)[sim.choose(7)]
    timeout = (None, 0.0, 1.0)[sim.choose(3)]
    reader = bool(sim.choose(2))
    role = ("client", "server")[sim.choose(2)]
    if event == "none" and timeout is None and not reader:
        reader = True           # otherwise legitimately blocked for ever
    if event == "peer-eof" and timeout is None and not reader:
        reader = True           # a peer's EOF does not end OUR sending direction
    W = 32768
    w = Workload(sim, latency=lat, timeout=None, client_kw={"default_window_size": W}, server_kw={"default_window_size": W})
    w.connect()
    ch, sch = w.open(ChanSpec())
    src, dst = (ch, sch) if role == "client" else (sch, ch)
    side = "c" if role == "client" else "s"
    src.settimeout(timeout)
    dst.settimeout(60.0)
    data = sim.payload.randbytes(size)
    desc = {"event": event, "phase": phase, "stream": "stderr" if stderr else "stdout", "size": size, "timeout": timeout,
            "peer_reads": reader, "sender": role, "latency": lat}
    result = {}

    def do_event():
        sim.record("event", event)
        if event == "shutdown_write":
            src.shutdown_write()
        elif event == "local-close":
            src.close()
        elif event == "peer-eof":
            dst.shutdown_write()
        elif event == "peer-close":
            dst.close()
        elif event == "link-eof":
            w.link.cut(None, "eof")
        elif event == "link-reset":
            w.link.cut(None, "reset")
        elif event == "transport-close":
            src.get_transport().close()
        result["event_at"] = sim.now

    def call():
        result["start"] = sim.now
        try:
            (src.sendall_stderr if stderr else src.sendall)(data)
            result["outcome"] = "returned"
            result["active_at_return"] = src.get_transport().is_active()
        except Exception as e:
            result["outcome"] = "raised"
            result["exc"] = e
        result["end"] = sim.now

    def peer_reader():
        try:
            while True:
                x = (dst.recv_stderr if stderr else dst.recv)(65536)
                if not x:
                    return
        except Exception:
            return

    if phase == "event-first":
        do_event()
        if event in ("peer-eof", "peer-close", "link-eof", "link-reset"):
            ssh.quiesce(sim, [w.link], (), settle=0.2, limit=5)
        tcall = sim.spawn(call, "sendall")
        if reader:
            sim.spawn(peer_reader, "peer-reader")
    elif phase == "racing":
        tcall = sim.spawn(call, "sendall")
        if reader:
            sim.spawn(peer_reader, "peer-reader")
        sim.spawn(do_event, "event")
    else:
        tcall = sim.spawn(call, "sendall")
        sim.sleep(0.3 + 2 * lat)         # let it fill the window and block (if it is going to)
        result["blocked_before_event"] = tcall.state != core.DONE
        if result["blocked_before_event"]:
            sim.probe("event_while_sendall_blocked")
        do_event()
        if reader:
            sim.spawn(peer_reader, "peer-reader")
    # liveness: wait for the call
    t0 = None
    steps0 = None
    while tcall.state != core.DONE:
        sim.sleep(0.25)
        if "event_at" in result or event == "none":
            if t0 is None:
                t0 = sim.now
                steps0 = tcall.steps
            legit_wait = (event in ("none", "peer-eof")) and reader and timeout != 0.0
            budget = 120.0 if legit_wait else T_CALL + (timeout or 0) + 4 * lat
            if sim.now - t0 > budget or tcall.steps - steps0 > STEP_CAP * (10 if legit_wait else 1):
                spinning = tcall.steps - steps0 > STEP_CAP
                raise Violation(("C25", "sendall-spins" if spinning else "sendall-never-returns", event, phase,
                                 core.where_parked(tcall)),
                                "sendall%s of %d bytes (%s, timeout=%r) %s %.1f virtual s / %d steps after %s (%s)"
                                % ("_stderr" if stderr else "", size, phase, timeout,
                                   "is still looping" if spinning else "has not returned",
                                   sim.now - t0, tcall.steps - steps0, event, core.where_parked(tcall)), desc)
    ssh.quiesce(sim, [w.link], (), settle=0.2, limit=10)
    desc["outcome"] = result.get("outcome") + ("" if result.get("outcome") == "returned" else ":" + type(result.get("exc")).__name__)
    if result.get("outcome") == "returned":
        # what left on the wire for this channel and stream
        left = bytearray()
        want_type = 95 if stderr else 94
        for seq, now, s, kind, ptype, payload in sorted(w.plog):
            if kind == "tx" and s == side and ptype == want_type:
                r = Reader(payload); r.byte()
                if r.u32() != src.remote_chanid:
                    continue
                if ptype == 95:
                    r.u32()
                left += r.string()
        if bytes(left) != data and result.get("active_at_return", True):
            raise Violation(("C25", "returned-without-delivering", event, phase),
                            "sendall%s returned normally but only %d of %d bytes were handed to the transport (%s, %s)"
                            % ("_stderr" if stderr else "", len(left), size, event, phase), desc)
        sim.probe("returned_and_delivered")
    else:
        sim.probe("raised_" + type(result["exc"]).__name__)
    w.p.close()
    return {"sample": desc, "nontrivial": True, "case_key": "%s|%s|%s|%s|%s|%s|%s" % (event, phase, stderr, size, timeout, reader, role),
            "counts": [event, phase]}
