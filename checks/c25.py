"""C25 -- sendall either delivers all data or raises.

CHAN engine: Channel.sendall / sendall_stderr of 1 B - 256 KiB issued before,
racing and after (i.e. while blocked on an exhausted window) one of:
shutdown_write by another task, local close, peer EOF, peer CLOSE, loss of the
transport; channel timeout None / 0 / finite; peer reading or not.
Oracle: a normal return implies that exactly those bytes left on that channel
and stream (from the wire-order log), unless the transport was already
inactive; the call ends within T_CALL virtual seconds (and a bounded number of
scheduler steps) after the event, unless it is legitimately waiting."""
import socket

from sim import ssh, core
from sim.chanwork import Workload, ChanSpec
from sim.core import Violation
from sim.wiretap import Reader

PROPERTY = "C25"
LEVEL = "exploration"
BUDGET = {"quick": {"runs": 1200, "wall": 55}, "thorough": {"runs": 50000, "wall": 570}}
T_CALL = 5.0
STEP_CAP = 200000
EVENTS = ("shutdown_write", "local-close", "peer-eof", "peer-close", "link-eof", "link-reset", "transport-close", "none")
PHASES = ("event-first", "racing", "call-first")
RULE = ("Each run: event in %r x phase in %r x stream (stdout/stderr) x size (1 B..256 KiB, relative to a 32 KiB window) x "
        "channel timeout (None / 0 / 1 s) x peer reading or not x sender role; one run in four instead: a timed sendall woken "
        "repeatedly without window (WINDOW_ADJUST of 0 bytes), or two sendalls blocked on one exhausted window and one large read "
        "by the peer; schedule and latency from the seed." % (EVENTS, PHASES))
COMPONENTS = {"real": ["both Transports/Channels unmodified, public API"], "simulated": ["socket", "clock", "scheduling", "entropy"]}
ASSUMPTIONS = ["T_CALL = 5 virtual seconds after the event and at most %d scheduler steps of the calling task; a call with no "
               "timeout, an exhausted window, no reader and no event is legitimately blocked and is not generated" % STEP_CAP]


def sim_kw(seed):
    return {"max_steps": 3_000_000, "max_time": 3600.0}


def special(sim, kind, lat):
    """Two shapes outside the event x phase grid.
    window-less-wakeups: timed sendall on an exhausted window whose waiters are woken again and again without
      any window becoming available (the peer sends WINDOW_ADJUST of 0 bytes): it must still time out.
    two-senders: two sendalls blocked on an exhausted window, then ONE large read by the peer (one adjustment
      covering both): both must return and deliver."""
    from paramiko import Message
    W = 32768
    w = Workload(sim, latency=lat, timeout=None, client_kw={"default_window_size": W}, server_kw={"default_window_size": W})
    w.connect()
    ch, sch = w.open(ChanSpec())
    role = ("client", "server")[sim.choose(2)]
    src, dst = (ch, sch) if role == "client" else (sch, ch)
    stderr = bool(sim.choose(2))
    send = src.sendall_stderr if stderr else src.sendall
    desc = {"shape": kind, "sender": role, "stream": "stderr" if stderr else "stdout", "latency": lat}
    src.settimeout(None)
    send(b"f" * W)                      # the peer's window is now used up and nobody reads
    res = {}

    def call(name, n):
        try:
            send(b"x" * n)
            res[name] = "returned"
        except Exception as e:
            res[name] = e
    if kind == "window-less-wakeups":
        timeout = (0.5, 1.0, 2.0)[sim.choose(3)]
        period = (0.05, 0.25, 0.4)[sim.choose(3)]
        desc.update(timeout=timeout, wakeup_period=period)
        src.settimeout(timeout)
        t = sim.spawn(lambda: call("a", 100), "sendall")
        t0 = sim.now
        n = 0
        while t.state != core.DONE and sim.now - t0 < timeout + T_CALL + 4 * lat:
            m = Message()
            m.add_byte(bytes([93]))
            m.add_int(dst.remote_chanid)
            m.add_int(0)
            dst.get_transport().packetizer.send_message(m)
            sim.fault("window_adjust_of_zero_bytes")
            n += 1
            sim.sleep(period)
        if t.state != core.DONE:
            raise Violation(("C25", "timed-sendall-never-times-out", "window-less-wakeups", core.where_parked(t)),
                            "sendall with timeout %.1f s on an exhausted window has not ended %.1f virtual s later while being "
                            "woken every %.2f s without any window (%d wake-ups); parked in %s"
                            % (timeout, sim.now - t0, period, n, core.where_parked(t)), desc)
        if res.get("a") == "returned":
            raise Violation(("C25", "returned-without-delivering", "window-less-wakeups"),
                            "sendall returned although the peer never opened its window", desc)
        sim.probe("timed_out_despite_wakeups")
    else:
        n1, n2 = 1 + sim.choose(300), 1 + sim.choose(300)
        t1 = sim.spawn(lambda: call("a", n1), "sendall")
        t2 = sim.spawn(lambda: call("b", n2), "sendall")
        sim.sleep(0.5 + 2 * lat)
        if t1.state != core.DONE and t2.state != core.DONE:
            sim.probe("two_senders_blocked_on_zero_window")
        dst.settimeout(10.0)
        got = [0]

        def drain():
            try:
                while got[0] < W + n1 + n2:
                    x = (dst.recv_stderr if stderr else dst.recv)(1 << 20)
                    if not x:
                        return
                    got[0] += len(x)
            except Exception:
                return
        sim.spawn(drain, "peer-reader")
        t0 = sim.now
        while (t1.state != core.DONE or t2.state != core.DONE) and sim.now - t0 < T_CALL + 6 * lat:
            sim.sleep(0.25)
        stuck = [t for t in (t1, t2) if t.state != core.DONE]
        if stuck:
            raise Violation(("C25", "sendall-never-returns", "two-senders-one-adjust", core.where_parked(stuck[0])),
                            "%d of 2 sendall calls blocked on an exhausted window are still blocked %.1f virtual s after the "
                            "peer read everything (peer got %d of %d bytes); parked in %s"
                            % (len(stuck), sim.now - t0, got[0], W + n1 + n2, core.where_parked(stuck[0])), desc)
        ssh.quiesce(sim, [w.link], (), settle=0.2, limit=10)
        bad = [k for k, v in res.items() if v != "returned"]
        if bad or got[0] != W + n1 + n2:
            raise Violation(("C25", "returned-without-delivering" if not bad else "sendall-failed-with-reading-peer", "two-senders-one-adjust"),
                            "results %r; peer received %d of %d bytes" % (res, got[0], W + n1 + n2), desc)
        sim.probe("two_senders_completed")
    w.p.close()
    return {"sample": desc, "nontrivial": True, "case_key": kind + role + str(stderr), "counts": [kind]}


def scenario(sim):
    sim.p_switch = (0.02, 0.1, 0.3)[sim.choose(3)]
    lat = (0.0, 0.005, 0.05)[sim.choose(3)]
    k = sim.choose(8)
    if k == 0:
        return special(sim, "window-less-wakeups", lat)
    if k == 1:
        return special(sim, "two-senders", lat)
    event = EVENTS[sim.choose(len(EVENTS))]
    phase = PHASES[sim.choose(len(PHASES))]
    stderr = bool(sim.choose(2))
    size = (1, 100, 32768 - 64, 32768, 32769, 100000, 262144)[sim.choose(7)]
    timeout = (None, 0.0, 1.0)[sim.choose(3)]
    reader = bool(sim.choose(2))
    role = ("client", "server")[sim.choose(2)]
    if event == "none" and timeout is None and not reader:
        reader = True           # otherwise legitimately blocked for ever
    if event == "peer-eof" and timeout is None and not reader:
        reader = True           # a peer's EOF does not end OUR sending direction
    W = 32768
    w = Workload(sim, latency=lat, timeout=None, client_kw={"default_window_size": W}, server_kw={"default_window_size": W})
    w.connect()
    ch, sch = w.open(ChanSpec())
    src, dst = (ch, sch) if role == "client" else (sch, ch)
    side = "c" if role == "client" else "s"
    src.settimeout(timeout)
    dst.settimeout(60.0)
    data = sim.payload.randbytes(size)
    payload = data
    kind = sim.choose(6)
    if kind == 0:
        # text: the API takes str and sends its UTF-8 form (2- and 3-byte characters, size counted in bytes)
        ch_ = ("\xa7", "\u20ac")[sim.choose(2)]
        w_ = len(ch_.encode())
        payload = ch_ * (size // w_) + "t" * (size % w_)
        data = payload.encode()
        sim.probe("text_payload")
    elif kind == 1:
        payload = memoryview(data)
        sim.probe("memoryview_payload")
    desc = {"event": event, "phase": phase, "stream": "stderr" if stderr else "stdout", "size": size, "timeout": timeout,
            "peer_reads": reader, "sender": role, "latency": lat}
    result = {}

    def do_event():
        sim.record("event", event)
        if event == "shutdown_write":
            src.shutdown_write()
        elif event == "local-close":
            src.close()
        elif event == "peer-eof":
            dst.shutdown_write()
        elif event == "peer-close":
            dst.close()
        elif event == "link-eof":
            w.link.cut(None, "eof")
        elif event == "link-reset":
            w.link.cut(None, "reset")
        elif event == "transport-close":
            src.get_transport().close()
        result["event_at"] = sim.now

    def call():
        result["start"] = sim.now
        try:
            (src.sendall_stderr if stderr else src.sendall)(payload)
            result["outcome"] = "returned"
            result["active_at_return"] = src.get_transport().is_active()
        except Exception as e:
            result["outcome"] = "raised"
            result["exc"] = e
        result["end"] = sim.now

    def peer_reader():
        try:
            while True:
                x = (dst.recv_stderr if stderr else dst.recv)(65536)
                if not x:
                    return
        except Exception:
            return

    if phase == "event-first":
        do_event()
        if event in ("peer-eof", "peer-close", "link-eof", "link-reset"):
            ssh.quiesce(sim, [w.link], (), settle=0.2, limit=5)
        tcall = sim.spawn(call, "sendall")
        if reader:
            sim.spawn(peer_reader, "peer-reader")
    elif phase == "racing":
        tcall = sim.spawn(call, "sendall")
        if reader:
            sim.spawn(peer_reader, "peer-reader")
        sim.spawn(do_event, "event")
    else:
        tcall = sim.spawn(call, "sendall")
        sim.sleep(0.3 + 2 * lat)         # let it fill the window and block (if it is going to)
        result["blocked_before_event"] = tcall.state != core.DONE
        if result["blocked_before_event"]:
            sim.probe("event_while_sendall_blocked")
        do_event()
        if reader:
            sim.spawn(peer_reader, "peer-reader")
    # liveness: wait for the call
    t0 = None
    steps0 = None
    while tcall.state != core.DONE:
        sim.sleep(0.25)
        if "event_at" in result or event == "none":
            if t0 is None:
                t0 = sim.now
                steps0 = tcall.steps
            legit_wait = (event in ("none", "peer-eof")) and reader and timeout != 0.0
            budget = 120.0 if legit_wait else T_CALL + (timeout or 0) + 4 * lat
            if sim.now - t0 > budget or tcall.steps - steps0 > STEP_CAP * (10 if legit_wait else 1):
                spinning = tcall.steps - steps0 > STEP_CAP
                raise Violation(("C25", "sendall-spins" if spinning else "sendall-never-returns", event, phase,
                                 core.where_parked(tcall)),
                                "sendall%s of %d bytes (%s, timeout=%r) %s %.1f virtual s / %d steps after %s (%s)"
                                % ("_stderr" if stderr else "", size, phase, timeout,
                                   "is still looping" if spinning else "has not returned",
                                   sim.now - t0, tcall.steps - steps0, event, core.where_parked(tcall)), desc)
    ssh.quiesce(sim, [w.link], (), settle=0.2, limit=10)
    desc["outcome"] = result.get("outcome") + ("" if result.get("outcome") == "returned" else ":" + type(result.get("exc")).__name__)
    if result.get("outcome") == "returned":
        # what left on the wire for this channel and stream
        left = bytearray()
        want_type = 95 if stderr else 94
        for seq, now, s, kind, ptype, payload in sorted(w.plog):
            if kind == "tx" and s == side and ptype == want_type:
                r = Reader(payload); r.byte()
                if r.u32() != src.remote_chanid:
                    continue
                if ptype == 95:
                    r.u32()
                left += r.string()
        if bytes(left) != data and result.get("active_at_return", True):
            raise Violation(("C25", "returned-without-delivering", event, phase),
                            "sendall%s returned normally but only %d of %d bytes were handed to the transport (%s, %s)"
                            % ("_stderr" if stderr else "", len(left), size, event, phase), desc)
        sim.probe("returned_and_delivered")
    else:
        sim.probe("raised_" + type(result["exc"]).__name__)
    w.p.close()
    return {"sample": desc, "nontrivial": True, "case_key": "%s|%s|%s|%s|%s|%s|%s" % (event, phase, stderr, size, timeout, reader, role),
            "counts": [event, phase]}
