"""C32 -- SFTP check-file returns the correct hashes for the requested ranges.

SFTP engine (real SFTPClient/SFTPFile.check and SFTPServer._check_file over a
real channel of a simulated transport pair).  Generated: file sizes 0..400 KiB
around the server's 64 KiB read chunk, offsets / lengths / block sizes at 0,
256, 64 KiB +-1, non-multiples, and ranges reaching or lying past end of file;
md5 and sha1; in a third of the runs the served handle returns short reads.
Oracle: hashlib over the served bytes, block by block; the answer (data or an
error) must arrive within 5 virtual seconds, the server may not spin."""
import hashlib
import os
import random

from sim import core
from sim.core import Violation, SimBudget, SimDeadlock
from sim.sftpsim import SftpSession, Faults

PROPERTY = "C32"
LEVEL = "exploration"
BUDGET = {"quick": {"runs": 1500, "wall": 40}, "thorough": {"runs": 60000, "wall": 560}}
RULE = ("Each run: one file (size from a boundary list up to 400 KiB) and 4 check-file requests with offset, length and "
        "block size drawn from boundary lists (0, 256, 64 KiB +-1, past EOF ...), md5 or sha1, optional short server reads.")
COMPONENTS = {"real": ["SFTPClient, SFTPFile.check, SFTPServer._check_file, SFTPHandle.read, transports, channel",
                       "scratch file on the real filesystem"],
              "harness": ["SFTPServerInterface over the scratch directory; its handle may shorten reads"],
              "simulated": ["socket", "clock", "scheduling", "entropy"]}
ASSUMPTIONS = ["block size 0 (one hash over the whole range) is compared only when the range has at least 256 bytes: for "
               "shorter ranges paramiko answers 'Block size too small', which the statement (block size of at least 256) "
               "does not cover",
               "a range lying entirely at or past end of file may be answered by an empty digest string or by an error, "
               "but must be answered"]
MINIMIZE_CASES = True
SIZES = (0, 1, 255, 256, 1000, 65535, 65536, 65537, 100000, 131072, 131073, 200000, 400000)
T_CALL = 5.0


def sim_kw(seed):
    return {"max_steps": 3_000_000, "max_time": 3600.0}


def content(seed, n):
    return random.Random(seed).randbytes(n)


def gen_req(sim, size):
    offs = (0, 0, 1, 255, 256, 65535, 65536, 65537, size // 2, max(size - 1, 0), size, size + 1, size + 70000)
    lens = (0, 0, 1, 256, 257, 1000, 65535, 65536, 65537, 131072, 100000, max(size - 1, 0), size, size + 1, 2 * size + 5, 500000)
    blocks = (0, 0, 256, 257, 1000, 4096, 65535, 65536, 65537, 100000, 131072, 200000, 1 << 20)
    return [("md5", "sha1")[sim.choose(2)], offs[sim.choose(len(offs))], lens[sim.choose(len(lens))],
            blocks[sim.choose(len(blocks))]]


def gen_case(sim):
    size = SIZES[sim.choose(len(SIZES))]
    reqs = []
    for _ in range(4):
        if reqs and sim.choose(5) == 0:
            # the file changes (through another handle / by path) between two requests on the same handle
            reqs.append([("grow", "shrink")[sim.choose(2)], (1, 300, 70000)[sim.choose(3)]])
        reqs.append(gen_req(sim, size))
    return {"size": size, "data_seed": sim.choose(1000), "short_reads": bool(sim.choose(3) == 0), "reqs": reqs}


def expected(data, alg, offset, length, block):
    """-> (digest bytes | None when not compared, kind)"""
    size = len(data)
    end = size if length == 0 else min(offset + length, size)
    rng = data[offset:end] if offset < end else b""
    if block == 0:
        if len(rng) < 256:
            return None, "block0-short-range"
        block = len(rng)
    if not rng:
        return b"", "empty-range"
    h = getattr(hashlib, alg)
    out = b""
    for i in range(0, len(rng), block):
        out += h(rng[i:i + block]).digest()
    kind = "within-file" if (length == 0 or offset + length <= size) else "runs-past-eof"
    return out, kind


def describe(case, req):
    alg, off, ln, blk = req
    size = case["size"]
    o = "offset-0" if off == 0 else "offset-inside" if off < size else "offset-at-or-past-eof"
    l = "length-0" if ln == 0 else "length-inside" if off + ln <= size else "length-past-eof"
    b = "block-0" if blk == 0 else "block<=64K" if blk <= 65536 else "block>64K"
    return "%s %s %s%s" % (o, l, b, " short-reads" if case["short_reads"] else "")


def scenario(sim):
    sim.spin_limit = 4.0
    sim.p_switch = (0.02, 0.1)[sim.choose(2)]
    case = sim.case if getattr(sim, "case", None) is not None else gen_case(sim)
    faults = Faults(sim)
    if case["short_reads"]:
        faults.p_short_read = 0.5
    s = SftpSession(sim, latency=(0.0, 0.002)[sim.choose(2)], faults=faults)
    sim.c32 = {"case": case, "req": None}
    try:
        data = content(case["data_seed"], case["size"])
        s.put_both("h.bin", data)
        rf = s.sftp.open("h.bin", "rb")
        for req in case["reqs"]:
            if req[0] == "grow":
                more = content(case["data_seed"] + 1, req[1])
                with s.sftp.open("h.bin", "ab") as wf:
                    wf.write(more)
                data += more
                sim.probe("file_grown_between_requests")
                continue
            if req[0] == "shrink":
                n = max(0, len(data) - req[1])
                s.sftp.truncate("h.bin", n)
                data = data[:n]
                sim.probe("file_shrunk_between_requests")
                continue
            one_request(sim, s, rf, case, req, data)
        rf.close()
    finally:
        s.close()
    return {"sample": case, "nontrivial": True, "case_key": repr((case["size"], case["short_reads"], case["reqs"])),
            "counts": [describe(case, [r for r in case["reqs"] if len(r) == 4][0])]}


def one_request(sim, s, rf, case, req, data):
    alg, off, ln, blk = req
    want, kind = expected(data, alg, off, ln, blk)
    changed = len(data) != case["size"] or any(len(r) != 4 for r in case["reqs"][:case["reqs"].index(req)])
    dcase = dict(case, size=len(data))

    def describe_(c, r):
        return describe(dcase, r) + (" after-file-change" if changed else "")
    box = {}
    sim.c32["req"] = req

    def call():
        try:
            box["res"] = rf.check(alg, off, ln, blk)
        except Exception as e:
            box["exc"] = e

    t0 = sim.now
    task = sim.spawn(call, "check-file")
    done = sim.join_task(task, T_CALL + 1.0)
    details = {"case": case, "request": req, "kind": kind}
    if not done:
        raise Violation(("C32", "no-answer", describe_(case, req)),
                        "check(%s, offset=%d, length=%d, block_size=%d) on a %d-byte file: no answer after %.1f virtual seconds (server parked in %s)"
                        % (alg, off, ln, blk, case["size"], sim.now - t0, server_where(sim)), details)
    sim.probe("requests")
    sim.probe("kind_" + kind)
    if want is None:
        return
    if "exc" in box:
        if kind == "empty-range":
            sim.probe("empty_range_answered_with_error")
            return
        raise Violation(("C32", "error-answer", describe_(case, req)),
                        "check(%s, offset=%d, length=%d, block_size=%d) on a %d-byte file raised %r; expected %d digest bytes"
                        % (alg, off, ln, blk, case["size"], box["exc"], len(want)), details)
    got = box["res"]
    if got != want:
        dl = hashlib.new(alg).digest_size
        nb_w, nb_g = len(want) // dl, len(got) // dl
        first = next((i for i in range(min(nb_w, nb_g)) if want[i * dl:(i + 1) * dl] != got[i * dl:(i + 1) * dl]), min(nb_w, nb_g))
        raise Violation(("C32", "wrong-digest", describe_(case, req)),
                        "check(%s, offset=%d, length=%d, block_size=%d) on a %d-byte file: %d blocks expected, %d returned, first wrong block %d"
                        % (alg, off, ln, blk, case["size"], nb_w, nb_g, first), details)


def server_where(sim):
    for t in sim.tasks:
        if t.name == "SFTPServer" and t.state != core.DONE:
            return core.where_parked(t)
    return "?"


def on_hang(sim, exc):
    """The server loops without reaching a yield point (e.g. reading at EOF for ever)."""
    info = getattr(sim, "c32", None)
    if info is None or info["req"] is None:
        return None
    msg = str(exc)
    if "cpu spin" in msg or isinstance(exc, (SimBudget, SimDeadlock)):
        case, req = info["case"], info["req"]
        where = "?"
        if sim.spin_info:
            frames = [f for f in sim.spin_info[1] if f.startswith("sftp_")]
            where = (frames[0].split(":")[0] + ":" + frames[0].split(":")[-1]) if frames else "?"
        return Violation(("C32", "no-answer", describe(case, req)),
                         "check(%s, offset=%d, length=%d, block_size=%d) on a %d-byte file: the server never answers (%s; %s)"
                         % (req[0], req[1], req[2], req[3], case["size"], where, msg[:120]),
                         {"case": case, "request": req})
    return None


def same_class(fp_a, fp_b):
    return list(fp_a[:2]) == list(fp_b[:2])


def case_candidates(case):
    def with_(**kw):
        c = dict(case)
        c.update(kw)
        return c
    reqs = case["reqs"]
    if len(reqs) > 1:
        for i in range(len(reqs)):
            if len(reqs[i]) == 4:
                yield with_(reqs=[reqs[i]])
        for i in range(len(reqs)):
            yield with_(reqs=reqs[:i] + reqs[i + 1:])
    if case["short_reads"]:
        yield with_(short_reads=False)
    for small in SIZES:
        if small < case["size"]:
            yield with_(size=small)
    for i, rq in enumerate(reqs):
        if len(rq) != 4:
            continue
        alg, off, ln, blk = rq
        for v in (0, 1, 256):
            if v < off:
                yield with_(reqs=reqs[:i] + [[alg, v, ln, blk]] + reqs[i + 1:])
        for v in (0, 256, 1000, 65536, 65537):
            if v < ln:
                yield with_(reqs=reqs[:i] + [[alg, off, v, blk]] + reqs[i + 1:])
        for v in (0, 256, 1000, 65536, 65537):
            if v < blk:
                yield with_(reqs=reqs[:i] + [[alg, off, ln, v]] + reqs[i + 1:])
