"""C42 -- buffered file wrappers preserve stream content and line structure.

UNIT engine (a BufferedFile subclass over a simulated stream whose delivery the
simulator owns) and CHAN engine (ChannelFile / ChannelStderrFile over a real
channel of a simulated transport pair, the peer feeding the stream in seeded
pieces under latency).
Generated: byte streams with CR / LF / CRLF mixes (and long lines), every
bufsize class, binary / text / universal-newline modes, programs of read(n) /
read() / readline(size) / iteration / readlines and of write / flush / close.
Faults (the stream seam): _read returns any non-empty prefix (down to 1 byte),
signals EOF by b"", None or EOFError; _write accepts any non-empty prefix
(partial writes); an explicit flush() may fail once before the stream has taken
a byte and is then repeated.
Oracle: every returned piece equals the next bytes of the stream by a small
reference model (lines end at the first newline or at the size limit; in
universal-newline mode CR and CRLF terminate a line and come back as LF); the
bytes the stream received are a prefix of the bytes written, in order, complete
after flush or close, and reach through the last newline as soon as a
line-buffered write returns."""
import random

import paramiko
from paramiko.file import BufferedFile

from sim import core, ssh
from sim.core import Violation
from sim.net import Link

PROPERTY = "C42"
LEVEL = "exploration"
BUDGET = {"quick": {"runs": 9000, "wall": 40}, "thorough": {"runs": 400000, "wall": 560}}
RULE = ("Each run: a stream of 0..20000 bytes with CR/LF/CRLF mix, mode from rb r rU rbU r+b wb w, bufsize from "
        "-1 0 1 2 17 8192 65536, a read program of 1-25 steps and/or a write program of 1-20 steps, delivery/acceptance "
        "chunking drawn from the seed; one run in six uses a real ChannelFile over a simulated connection.")
COMPONENTS = {"real": ["paramiko.file.BufferedFile", "paramiko.channel.ChannelFile / ChannelStderrFile / ChannelStdinFile "
                       "with real Channel and Transport (channel family)"],
              "simulated": ["the underlying stream (_read/_write seam): chunking, partial writes, EOF signalling",
                            "socket, clock, scheduling, entropy (channel family)"]}
ASSUMPTIONS = ["text mode uses ASCII streams (a size limit may cut a multi-byte character, which the byte-oriented API "
               "cannot avoid)",
               "universal-newline mode is exercised with readline()/iteration/readlines without a size limit only: "
               "mixing in read(n) or a size limit has no documented meaning for a pending CR"]
MINIMIZE_CASES = True
BUFSIZES = (-1, 0, 1, 2, 17, 8192, 65536)
RMODES = ("rb", "r", "rbU", "rU", "r+b")
WMODES = ("wb", "w", "r+b", "ab")


def sim_kw(seed):
    return {"max_steps": 2_000_000, "max_time": 3600.0}


def stream_bytes(seed, n, style):
    r = random.Random(seed)
    out = bytearray()
    while len(out) < n:
        k = r.randrange(8)
        if k == 0:
            out += b"\r\n"
        elif k == 1:
            out += b"\n"
        elif k == 2 and style != "lf-only":
            out += b"\r"
        elif k == 3 and style == "long-lines":
            out += bytes(97 + r.randrange(26) for _ in range(r.randrange(9000, 20000)))
        else:
            out += bytes(65 + r.randrange(26) for _ in range(1 + r.randrange(30)))
    return bytes(out[:n])


class SimStream(BufferedFile):
    """BufferedFile over a stream whose chunking, partial writes and EOF form the simulator decides."""

    def __init__(self, sim, mode, bufsize, data, chunk_style, eof_style, wchunk_style):
        BufferedFile.__init__(self)
        self._set_mode(mode, bufsize)
        self.sim = sim
        self.data = data
        self.rpos = 0
        self.sink = bytearray()
        self.chunk_style = chunk_style
        self.eof_style = eof_style
        self.wchunk_style = wchunk_style
        self.read_calls = 0

    def _read(self, size):
        sim = self.sim
        self.read_calls += 1
        left = len(self.data) - self.rpos
        if left <= 0:
            sim.probe("eof_signalled")
            if self.eof_style == 1:
                return None
            if self.eof_style == 2:
                raise EOFError()
            return b""
        n = min(size, left)
        st = self.chunk_style
        if st == 1:
            n = 1
            sim.fault("one_byte_delivery")
        elif st == 2 and n > 1:
            n = 1 + sim.choose(n)
            sim.fault("short_delivery")
        elif st == 3 and n > 1:
            # deliveries that end right after a CR when possible (splits CRLF pairs)
            i = self.data.find(b"\r", self.rpos, self.rpos + n)
            if i >= 0 and sim.choose(2):
                n = i - self.rpos + 1
                sim.fault("delivery_ends_at_cr")
        out = self.data[self.rpos:self.rpos + n]
        self.rpos += n
        return out

    fail_next_write = False

    def _write(self, data):
        sim = self.sim
        if self.fail_next_write:
            # a transient failure of the stream before it has taken a single byte (eg a timeout on a closed window)
            self.fail_next_write = False
            sim.fault("write_fails_before_taking_anything")
            import socket
            raise socket.timeout("simulated transient write failure")
        n = len(data)
        st = self.wchunk_style
        if st == 1 and n > 1:
            n = 1 + sim.choose(n)
            sim.fault("partial_write")
        elif st == 2:
            n = 1
            sim.fault("one_byte_write")
        self.sink += bytes(data[:n])
        return n


# ---------------------------------------------------------------- reference model
def ref_readline(stream, p, size):
    idx = stream.find(b"\n", p)
    end = len(stream) if idx < 0 else idx + 1
    if size is not None and size >= 0:
        end = min(end, p + size)
    return stream[p:end]


def ref_universal_line(stream, p):
    """-> (line as returned, new position)"""
    n = len(stream)
    if p >= n:
        return b"", p
    i = p
    while i < n and stream[i] not in (10, 13):
        i += 1
    if i >= n:
        return stream[p:n], n
    if stream[i] == 13 and i + 1 < n and stream[i + 1] == 10:
        return stream[p:i] + b"\n", i + 2
    return stream[p:i] + b"\n", i + 1


def gen_case(sim):
    fam = "channel" if sim.choose(6) == 0 else "stream"
    kind = ("read", "read", "write", "both")[sim.choose(4)]
    size = (0, 1, 50, 700, 9000, 20000)[sim.choose(6)]
    style = ("mixed", "mixed", "lf-only", "long-lines")[sim.choose(4)]
    rmode = RMODES[sim.choose(len(RMODES))]
    universal = "U" in rmode
    rprog = []
    for _ in range(1 + sim.choose(25)):
        k = sim.choose(10)
        if universal:
            rprog.append([("readline", "next", "readline", "readlines")[sim.choose(4)], None])
        elif k < 3:
            rprog.append([("read", "read", "read", "readinto")[sim.choose(4)], (0, 1, 2, 7, 100, 8192, 8193, 30000)[sim.choose(8)]])
        elif k == 3:
            rprog.append(["read", None])
        elif k < 7:
            rprog.append(["readline", (None, None, None, 0, 1, 2, 5, 80, 8192, 100000)[sim.choose(10)]])
        elif k < 9:
            rprog.append(["next", None])
        else:
            rprog.append(["readlines", (None, 1, 100, 10000)[sim.choose(4)]])
    wprog = []
    for _ in range(1 + sim.choose(20)):
        k = sim.choose(8)
        if k < 6:
            wprog.append(["write", (0, 1, 2, 10, 16, 17, 100, 8192, 20000)[sim.choose(9)], sim.choose(1000),
                          ("mixed", "lf-only", "none")[sim.choose(3)], bool(sim.choose(4) == 0), bool(sim.choose(5) == 0)])
        else:
            wprog.append(["flush", bool(sim.choose(4) == 0)])
    return {"family": fam, "kind": kind, "size": size, "style": style, "data_seed": sim.choose(1000),
            "rmode": rmode, "wmode": WMODES[sim.choose(len(WMODES))],
            "bufsize": BUFSIZES[sim.choose(len(BUFSIZES))],
            "chunk_style": sim.choose(4), "eof_style": sim.choose(3), "wchunk_style": sim.choose(3),
            "rprog": rprog, "wprog": wprog}


def bufclass(b):
    return "unbuffered" if b <= 0 else "line" if b == 1 else "buffered"


def wdata(op):
    n, seed, style = op[1], op[2], op[3]
    r = random.Random(seed)
    out = bytearray()
    while len(out) < n:
        k = r.randrange(6)
        if k == 0 and style != "none":
            out += b"\n"
        elif k == 1 and style == "mixed":
            out += b"\r\n"
        else:
            out += bytes(97 + r.randrange(26) for _ in range(1 + r.randrange(12)))
    return bytes(out[:n])


def scenario(sim):
    case = sim.case if getattr(sim, "case", None) is not None else gen_case(sim)
    if case["family"] == "channel":
        run_channel(sim, case)
    else:
        run_stream(sim, case)
    key = repr((case["family"], case["kind"], case["rmode"], case["wmode"], bufclass(case["bufsize"]), case["chunk_style"],
                case["eof_style"], case["wchunk_style"], [o[0] for o in case["rprog"]], [o[0] for o in case["wprog"]]))
    return {"sample": {k: v for k, v in case.items() if k not in ("rprog", "wprog")}, "nontrivial": True, "case_key": key,
            "counts": [case["family"], case["kind"], bufclass(case["bufsize"]),
                       case["rmode"] if case["kind"] != "write" else case["wmode"]]}


def fail(case, fp, msg):
    raise Violation(fp, msg, {"case": case})


# ---------------------------------------------------------------- reading
def check_reads(sim, case, f, stream, text, universal):
    """Runs the read program on f; stream: the complete byte stream f wraps."""
    p = 0
    ctx = "(mode %s, bufsize %d, delivery style %d)" % (case["rmode"], case["bufsize"], case["chunk_style"])
    for i, (op, arg) in enumerate(case["rprog"]):
        if op == "readinto":
            buf = bytearray(arg)
            k_ = f.readinto(buf)
            got = bytes(buf[:k_])
            if text:
                got = got.decode("latin-1") if isinstance(stream, str) else got
            want = stream[p:p + arg]
            if isinstance(want, str):
                want = want.encode("latin-1")
                got = got if isinstance(got, bytes) else got.encode("latin-1")
            if got != want:
                fail(case, ("C42", "read-differs", "readinto", how(got, want)),
                     "step %d readinto(bytearray(%d)) at stream position %d filled in %s, expected %s %s"
                     % (i, arg, p, brief(got), brief(want), ctx))
            p += len(want)
            sim.probe("readinto")
        elif op == "read":
            got = f.read() if arg is None else f.read(arg)
            want = stream[p:] if arg is None else stream[p:p + arg]
            if got != want:
                fail(case, ("C42", "read-differs", "read-all" if arg is None else "read-n", how(got, want)),
                     "step %d read(%r) at stream position %d returned %s, expected %s %s"
                     % (i, arg, p, brief(got), brief(want), ctx))
            p += len(want)
        elif op in ("readline", "next"):
            if universal:
                want, p2 = ref_universal_line(stream, p)
            else:
                want = ref_readline(stream, p, arg if op == "readline" else None)
                p2 = p + len(want)
            stop = False
            if op == "readline":
                got = f.readline() if arg is None else f.readline(arg)
            else:
                try:
                    got = next(f)
                except StopIteration:
                    got, stop = None, True
            if op == "next" and (stop != (len(want) == 0)):
                fail(case, ("C42", "iteration-end-differs", "universal" if universal else "plain",
                            "stopped-early" if stop else "did-not-stop"),
                     "step %d next() at stream position %d %s, expected %s %s"
                     % (i, p, "raised StopIteration" if stop else "returned %s" % brief(got), brief(want), ctx))
            if not stop:
                gb = got.encode("utf-8") if isinstance(got, str) else got
                if text and not isinstance(got, str):
                    fail(case, ("C42", "line-type", "bytes-in-text-mode"), "step %d %s returned bytes in text mode %s" % (i, op, ctx))
                if gb != want:
                    fail(case, ("C42", "line-differs", ("universal" if universal else "plain") +
                                ("-size" if (op == "readline" and arg is not None) else ""), how(gb, want)),
                         "step %d %s(%s) at stream position %d returned %s, expected %s %s"
                         % (i, op, "" if arg is None else arg, p, brief(gb), brief(want), ctx))
            p = p2
        else:
            got = f.readlines() if arg is None else f.readlines(arg)
            want = []
            tot = 0
            q = p
            while True:
                if universal:
                    line, q2 = ref_universal_line(stream, q)
                else:
                    line = ref_readline(stream, q, None)
                    q2 = q + len(line)
                if not line:
                    break
                want.append(line)
                q = q2
                tot += len(line)
                if arg is not None and tot >= arg:
                    break
            gb = [g.encode("utf-8") if isinstance(g, str) else g for g in got]
            if gb != want:
                k = next((j for j in range(min(len(gb), len(want))) if gb[j] != want[j]), min(len(gb), len(want)))
                fail(case, ("C42", "lines-differ", "universal" if universal else "plain"),
                     "step %d readlines(%r) at stream position %d returned %d lines, expected %d; first difference at line %d: %s vs %s %s"
                     % (i, arg, p, len(gb), len(want), k, brief(gb[k]) if k < len(gb) else None,
                        brief(want[k]) if k < len(want) else None, ctx))
            p = q
        sim.probe("read_steps")
    return p


def how(got, want):
    if got is None:
        return "none"
    if len(got) < len(want) and want[:len(got)] == got:
        return "short"
    if len(got) > len(want) and got[:len(want)] == want:
        return "long"
    return "wrong-bytes"


def brief(v):
    if v is None:
        return "None"
    if isinstance(v, (bytes, bytearray, str)):
        return "%d bytes %r%s" % (len(v), v[:30], "..." if len(v) > 30 else "")
    return repr(v)


# ---------------------------------------------------------------- writing
def check_writes(sim, case, f, sink_fn, settle=None):
    """Runs the write program on f; sink_fn() -> bytes the stream has received so far."""
    written = bytearray()
    bc = bufclass(case["bufsize"])
    ctx = "(mode %s, bufsize %d, acceptance style %d)" % (case["wmode"], case["bufsize"], case["wchunk_style"])

    def prefix_check(i, what):
        if settle:
            settle()
        sink = sink_fn()
        if bytes(written[:len(sink)]) != bytes(sink):
            k = next((j for j in range(min(len(sink), len(written))) if sink[j] != written[j]), min(len(sink), len(written)))
            fail(case, ("C42", "stream-got-wrong-bytes", bc, what),
                 "after step %d (%s) the stream holds %d bytes that are not a prefix of the %d written: first difference at %d %s"
                 % (i, what, len(sink), len(written), k, ctx))
        return sink

    for i, op in enumerate(case["wprog"]):
        if op[0] == "write":
            d = wdata(op)
            if len(op) > 5 and op[5]:
                # the same bytes handed over line by line
                parts = d.splitlines(True)
                f.writelines([x.decode("ascii") for x in parts] if op[4] else parts)
                sim.probe("writelines")
            else:
                f.write(d.decode("ascii") if op[4] else d)
            written += d
            sink = prefix_check(i, "write")
            if bc == "unbuffered" and len(sink) != len(written):
                fail(case, ("C42", "unbuffered-write-held-back", bc),
                     "after step %d write(%d bytes) on an unbuffered file the stream holds %d of %d bytes %s"
                     % (i, len(d), len(sink), len(written), ctx))
            if bc == "line":
                nl = bytes(written).rfind(b"\n")
                if nl >= 0 and len(sink) < nl + 1:
                    fail(case, ("C42", "line-buffered-write-held-back", bc),
                         "after step %d write(%d bytes) on a line-buffered file the stream holds %d bytes but the last newline written is at %d %s"
                         % (i, len(d), len(sink), nl, ctx))
        else:
            if len(op) > 1 and op[1] and hasattr(f, "fail_next_write"):
                # the stream fails once, before accepting anything; the application flushes again
                f.fail_next_write = True
                try:
                    f.flush()
                except OSError:
                    sim.probe("flush_failed_and_retried")
                f.fail_next_write = False
            f.flush()
            sink = prefix_check(i, "flush")
            if len(sink) != len(written):
                fail(case, ("C42", "flush-incomplete", bc),
                     "after step %d flush() the stream holds %d of %d bytes written %s" % (i, len(sink), len(written), ctx))
        sim.probe("write_steps")
    f.close()
    sink = prefix_check(len(case["wprog"]), "close")
    if len(sink) != len(written):
        fail(case, ("C42", "close-incomplete", bc),
             "after close() the stream holds %d of %d bytes written %s" % (len(sink), len(written), ctx))
    return bytes(written)


# ---------------------------------------------------------------- families
def run_stream(sim, case):
    data = stream_bytes(case["data_seed"], case["size"], case["style"])
    kind = case["kind"]
    if kind in ("read", "both"):
        mode = case["rmode"] if kind == "read" else "r+b"
        f = SimStream(sim, mode, case["bufsize"], data, case["chunk_style"], case["eof_style"], case["wchunk_style"])
        text = "b" not in mode
        universal = "U" in mode
        if kind == "both":
            # a duplex stream: reads and writes are independent streams; interleave the programs
            c2 = dict(case, rprog=case["rprog"][:len(case["rprog"]) // 2])
            p = check_reads(sim, c2, f, data, text, universal)
            written = bytearray()
            for op in case["wprog"][:5]:
                if op[0] == "write":
                    d = wdata(op)
                    f.write(d)
                    written += d
                else:
                    f.flush()
            rest = dict(case, rprog=case["rprog"][len(case["rprog"]) // 2:])
            # continue reading from where the first half stopped
            check_reads(sim, rest, _Offset(f), data[p:], text, universal)
            f.flush()
            if bytes(f.sink) != bytes(written):
                fail(case, ("C42", "flush-incomplete", bufclass(case["bufsize"]), "duplex"),
                     "duplex stream: after flush the stream holds %d bytes, %d were written" % (len(f.sink), len(written)))
        else:
            check_reads(sim, case, f, data, text, universal)
        if f.rpos > len(data):
            fail(case, ("C42", "read-past-stream"), "stream position %d beyond its %d bytes" % (f.rpos, len(data)))
    else:
        f = SimStream(sim, case["wmode"], case["bufsize"], b"", 0, 0, case["wchunk_style"])
        check_writes(sim, case, f, lambda: bytes(f.sink))


class _Offset:
    """Pass-through (keeps check_reads' positions relative to a later part of the stream)."""

    def __init__(self, f):
        self.f = f

    def __getattr__(self, name):
        return getattr(self.f, name)

    def __next__(self):
        return next(self.f)


def run_channel(sim, case):
    sim.p_switch = (0.02, 0.1, 0.3)[sim.choose(3)]
    lat = (0.0, 0.002, 0.02)[sim.choose(3)]
    p = ssh.connected_pair(sim, latency=(lat, lat))
    try:
        ch = p.tc.open_session(timeout=60)
        sch = p.ts.accept(60)
        ch.settimeout(120)
        sch.settimeout(120)
        data = stream_bytes(case["data_seed"], case["size"], case["style"])
        stderr = bool(sim.choose(3) == 0)
        if case["kind"] in ("read", "both"):
            # the server feeds the stream in seeded pieces; the client reads it through a ChannelFile
            pieces = []
            i = 0
            while i < len(data):
                k = (1, 2, 10, 500, 5000, 40000)[sim.choose(6)]
                pieces.append(data[i:i + k])
                i += k

            def feeder():
                for pc in pieces:
                    (sch.sendall_stderr if stderr else sch.sendall)(pc)
                    if sim.choose(3) == 0:
                        sim.sleep((0.001, 0.05)[sim.choose(2)])
                sch.shutdown_write()
                if stderr:
                    sch.close()
            t = sim.spawn(feeder, "feeder")
            mode = case["rmode"]
            f = (ch.makefile_stderr if stderr else ch.makefile)(mode, case["bufsize"])
            check_reads(sim, case, f, data, "b" not in mode, "U" in mode)
            sim.join_task(t, 60)
        else:
            got = bytearray()
            done = []

            def collector():
                while True:
                    x = sch.recv(65536)
                    if not x:
                        break
                    got.extend(x)
                done.append(1)
            t = sim.spawn(collector, "collector")
            f = ch.makefile_stdin(case["wmode"], case["bufsize"])

            def settle():
                ssh.quiesce(sim, [p.link], settle=0.05, limit=20.0)
            check_writes(sim, case, f, lambda: bytes(got), settle)
            ch.shutdown_write()
            sim.join_task(t, 60)
    finally:
        p.close()


# ---------------------------------------------------------------- minimisation
def same_class(fp_a, fp_b):
    return list(fp_a[:3]) == list(fp_b[:3])


def case_candidates(case):
    def with_(**kw):
        c = dict(case)
        c.update(kw)
        return c
    if case["family"] == "channel":
        yield with_(family="stream")
    if case["kind"] == "both":
        yield with_(kind="read")
        yield with_(kind="write")
    for key in ("rprog", "wprog"):
        prog = case[key]
        n = len(prog)
        size = n // 2
        while size >= 1:
            for i in range(0, n, size):
                if n - size >= 1:
                    yield with_(**{key: prog[:i] + prog[i + size:]})
            size //= 2
    for small in (0, 1, 50, 700, 9000):
        if small < case["size"]:
            yield with_(size=small)
    if case["style"] != "lf-only":
        yield with_(style="lf-only")
    for k in ("chunk_style", "eof_style", "wchunk_style"):
        if case[k] != 0:
            yield with_(**{k: 0})
    for canon in (0, 1, 8192):
        if bufclass(canon) == bufclass(case["bufsize"]) and case["bufsize"] != canon:
            yield with_(bufsize=canon)
    for i, op in enumerate(case["wprog"]):
        if op[0] == "write" and op[1] > 2:
            for v in (1, 2, 10, 17):
                if v < op[1]:
                    yield with_(wprog=case["wprog"][:i] + [["write", v] + op[2:]] + case["wprog"][i + 1:])
