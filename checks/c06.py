"""C06 -- key exchange agrees on a secret and authenticates the host key.

LINK engine.  Honest runs: every kex method x host-key algorithm, 0-3 rekeys by
either side; H recomputed independently from the wire fields, signature checked
independently against the host-key blob, session id must stay the first H.
Faulted runs (enumerated by seed index): a byzantine server alters exactly one
field of its key-exchange reply in exchange j (flip a byte, truncate, swap the
host key for another valid key) -- the client must abort that exchange."""
import struct

from paramiko.ssh_exception import SSHException

from sim import ssh, wiretap, kexoracle, core
from sim.core import Violation
from sim.net import Link
from sim.wiretap import Reader

PROPERTY = "C06"
LEVEL = "fault_enumeration"
BUDGET = {"quick": {"runs": 1500, "wall": 55}, "thorough": {"runs": 50000, "wall": 570}}
RULE = ("Seed index enumerates kex method x host-key algorithm x (honest | field x mutation kind) x target "
        "exchange; within a run rekey count/initiators, byte positions and schedule come from the seed.")
COMPONENTS = {"real": ["paramiko Transport + all kex classes + key classes (victim client unmodified; the server is a real "
                       "Transport whose outgoing reply is edited before encryption in faulted runs)"],
              "simulated": ["socket", "clock", "scheduling", "entropy"],
              "oracle": ["sim/kexoracle.py: H from wire fields, signature verification with cryptography"]}
ASSUMPTIONS = ["K is taken from the _set_K_H seam (the tap holds no private keys); cryptography is trusted."]

KEXES = ssh.KEX_NAMES
HOSTALGOS = tuple(ssh.HOSTKEY_ALGOS)
FIELDS = ("hostkey", "pub", "sig_name", "sig_blob")
MUTS = ("flip", "truncate", "swap-same-type", "swap-other-type")
FAULTS = [(f, m) for f in FIELDS for m in ("flip", "truncate")] + [("hostkey", "swap-same-type"), ("hostkey", "swap-other-type"),
                                                                    ("pub", "reencode"), ("sig_blob", "flip-last")]
REPLY_TYPE = {"gex": 33, "other": 31}


def sim_kw(seed):
    return {"max_steps": 3_000_000, "max_time": 7200.0}


def sstr(b):
    return struct.pack(">I", len(b)) + b


def mutate_reply(sim, payload, kex, field, mut, halgo):
    """payload: full reply message (type byte first).  Returns edited payload."""
    r = Reader(payload)
    t = r.byte()
    K_S = r.string()
    pub = r.string()        # f (mpint bytes) or Q_S
    sig = r.string()
    rs = Reader(sig)
    sname = rs.string()
    sblob = rs.string()

    def edit(b):
        if mut == "flip":
            if not b:
                return b"\x01"
            i = sim.choose(len(b))
            return b[:i] + bytes([b[i] ^ (1 << sim.choose(8))]) + b[i + 1:]
        if mut == "truncate":
            return b[:sim.choose(len(b))] if b else b
        if mut == "flip-last":
            return b[:-1] + bytes([b[-1] ^ 1]) if b else b"\x01"
        if mut == "reencode":
            # same value, different encoding: compressed EC point / mpint with a redundant leading zero
            if kex.startswith("ecdh-sha2-"):
                from cryptography.hazmat.primitives.asymmetric import ec
                from cryptography.hazmat.primitives import serialization
                curve = {"nistp256": ec.SECP256R1, "nistp384": ec.SECP384R1, "nistp521": ec.SECP521R1}[kex[-8:]]
                pt = ec.EllipticCurvePublicKey.from_encoded_point(curve(), b)
                return pt.public_bytes(serialization.Encoding.X962, serialization.PublicFormat.CompressedPoint)
            if kex.startswith("diffie-hellman"):
                return b"\x00" + b
            return b[:-1] + bytes([b[-1] ^ 0x80])   # x25519: non-canonical top bit
        return b

    if field == "hostkey":
        if mut.startswith("swap"):
            same = mut == "swap-same-type"
            cur = ssh.HOSTKEY_ALGOS[halgo]
            if same:
                other = {"rsa1": "rsa2", "ecdsa256_1": "ecdsa256_2", "ed25519_1": "ed25519_2"}.get(cur)
                if other is None:
                    other = "rsa2" if cur != "rsa1" else "ed25519_2"
            else:
                other = "ed25519_2" if not cur.startswith("ed25519") else "rsa2"
            K_S = ssh.key(other).asbytes()
        else:
            K_S = edit(K_S)
    elif field == "pub":
        pub = edit(pub)
    elif field == "sig_name":
        sname = edit(sname)
    else:
        sblob = edit(sblob)
    sig = sstr(sname) + sstr(sblob)
    return bytes([t]) + sstr(K_S) + sstr(pub) + sstr(sig)


def _lenient_ints(blob):
    """(r, s) of an ECDSA signature blob, reading each length clipped to what is there."""
    out = []
    i = 0
    for _ in range(2):
        if i + 4 > len(blob):
            return None
        n = struct.unpack_from(">I", blob, i)[0]
        i += 4
        out.append(int.from_bytes(blob[i:i + n], "big", signed=True))
        i += min(n, len(blob) - i)
    return tuple(out) + (blob[i:],)


def same_values(orig, mutated, dh=False):
    """True if the mutated reply still carries exactly the original values and only
    an inner length prefix of the ECDSA (r, s) encoding differs (encoding malleability)."""
    def split(p):
        r = Reader(p); r.byte()
        K_S, pub, sig = r.string(), r.string(), r.string()
        rs = Reader(sig)
        return K_S, pub, rs.string(), rs.string(), r.rest(), rs.rest()
    try:
        a, b = split(orig), split(mutated)
    except Exception:
        return False
    if a[0] != b[0] or a[2] != b[2] or a[4] != b[4] or a[5] != b[5]:
        return False
    if a[1] != b[1]:
        # f as an mpint with redundant leading zero bytes is the same integer
        if dh and int.from_bytes(a[1], "big", signed=True) == int.from_bytes(b[1], "big", signed=True) \
                and a[3] == b[3]:
            return "mpint"
        return False
    if not a[2].startswith(b"ecdsa-"):
        return a[3] == b[3]
    return _lenient_ints(a[3]) == _lenient_ints(b[3])


def scenario(sim):
    sim.p_switch = (0.02, 0.1, 0.4)[sim.choose(3)]
    i = sim.seed
    kex = KEXES[i % len(KEXES)] if i % 2 == 0 else \
        ("curve25519-sha256@libssh.org", "ecdh-sha2-nistp256", "diffie-hellman-group1-sha1",
         "ecdh-sha2-nistp384", "ecdh-sha2-nistp521")[(i // 2) % 5]
    halgo = HOSTALGOS[(i // len(KEXES)) % len(HOSTALGOS)]
    case = (i // 7) % (len(FAULTS) + 6)       # 6 of every len+6 runs are honest
    fault = FAULTS[case] if case < len(FAULTS) else None
    nrekey = (0, 1, 2, 3)[sim.choose(4)] if fault is None else (0, 0, 1, 2)[sim.choose(4)]
    target = sim.choose(nrekey + 1) if fault else None
    lat = (0.0, 0.01)[sim.choose(2)]
    link = Link(sim, latency=(lat, lat))
    state = {"replies": 0, "mutated": False}
    reply_t = 33 if "group-exchange" in kex else 31

    def mutate_out(pk, payload):
        if fault and payload[0] == reply_t and len(payload) > 40:
            # GEX: type 31 from the server is the GROUP message, reply is 33
            n = state["replies"]
            state["replies"] += 1
            if n == target:
                state["mutated"] = True
                sim.fault("reply_" + fault[0] + "_" + fault[1])
                new = mutate_reply(sim, payload, kex, fault[0], fault[1], halgo)
                state["same_values"] = same_values(payload, new, kex.startswith("diffie-hellman"))
                state["noop"] = new == payload
                return [new]
        return [payload]

    plog = []
    spk = ssh.byzantine_packetizer("s", plog, mutate_out=mutate_out)
    p = ssh.tapped_pair(sim, link=link, host_keys=(ssh.HOSTKEY_ALGOS[halgo],), server_pk=spk, plog=plog)
    p.plog = plog
    for t in (p.tc, p.ts):
        ssh.configure(t, kex=kex, hostkey_algo=halgo)
    desc = {"kex": kex, "hostkey_algo": halgo, "fault": fault, "target_exchange": target, "rekeys": nrekey}
    # identification strings with a comment part (RFC 4253 4.2: "SSH-2.0-software SP comments"); the whole line,
    # comment included, goes into the exchange hash on both sides
    if sim.choose(3) == 0:
        for t in (p.tc, p.ts):
            if sim.choose(2):
                t.local_version = t.local_version + " " + ("Ubuntu-3ubuntu0.6", "a comment with  two spaces", "x")[sim.choose(3)]
        desc["banners"] = [p.tc.local_version, p.ts.local_version]
        sim.probe("banner_with_comment")
    # honest runs with re-keys: the server may have had its host key replaced (same algorithm) in between
    swap_to = {"rsa1": "rsa2", "ecdsa256_1": "ecdsa256_2", "ed25519_1": "ed25519_2"}.get(ssh.HOSTKEY_ALGOS[halgo])
    swap_before = sim.choose(nrekey) if (fault is None and nrekey and swap_to and sim.choose(3) == 0) else None
    desc["host_key_replaced_before_rekey"] = swap_before
    errors = []
    try:
        p.start(timeout=60)
    except Exception as e:
        errors.append(("start_client", e))
    if not errors:
        p.wait_server()
        p.auth_password()
        ch = p.tc.open_session()
        sch = p.ts.accept(30)
        ok = ssh.echo_round(sim, ch, sch, 100, 100)
        for r in range(nrekey):
            who = (p.tc, p.ts)[sim.choose(2)]
            if swap_before == r:
                p.ts.add_server_key(ssh.key(swap_to))
                sim.probe("host_key_replaced_between_exchanges")
            try:
                who.renegotiate_keys()
            except Exception as e:
                errors.append(("renegotiate_keys", e))
                break
            try:
                ch.settimeout(20); sch.settimeout(20)
                ok = ssh.echo_round(sim, ch, sch, 50, 50) and ok
            except Exception as e:
                errors.append(("echo", e))
                break
    ssh.quiesce(sim, [link], (), settle=0.2, limit=30)
    tap = p.tap
    exs = kexoracle.parse_exchanges(tap)
    if fault is None:
        if errors:
            raise Violation(("C06", "honest-exchange-failed", errors[0][0], type(errors[0][1]).__name__),
                            "honest session failed in %s: %r" % errors[0], desc)
        if tap.error is not None:
            raise Violation(("C06", "tap-error"), "wiretap lost the session: %s" % (tap.error,), desc)
        if len(exs) != nrekey + 1:
            raise Violation(("C06", "exchange-count"), "saw %d exchanges, expected %d" % (len(exs), nrekey + 1), desc)
        first_H = None
        for j, ex in enumerate(exs):
            if tap.kh[0][j] != tap.kh[1][j]:
                raise Violation(("C06", "peers-disagree-on-K-H"), "exchange %d: peers hold different K/H" % j, desc)
            K, H = tap.kh[0][j]
            rf = kexoracle.reply_fields(ex)
            if rf is None:
                raise RuntimeError("reply of exchange %d not found on the wire (%s)" % (j, ex.kex))
            H2 = kexoracle.exchange_hash(ex, tap.banner[0], tap.banner[1], K, rf)
            if H2 != H:
                raise Violation(("C06", "exchange-hash-differs", ex.kex),
                                "exchange %d (%s): H held by the peers differs from H recomputed from the wire fields" % (j, ex.kex), desc)
            oksig, ktype, sname = kexoracle.verify_sig(rf["K_S"], rf["sig"], H)
            if not oksig:
                raise Violation(("C06", "signature-does-not-verify", ktype, sname),
                                "exchange %d: server signature (%s) does not verify over H under the host key shown (%s)" % (j, sname, ktype), desc)
            if j == len(exs) - 1 and p.tc.get_remote_server_key().asbytes() != rf["K_S"]:
                raise Violation(("C06", "reported-host-key-differs", "after-replacement" if swap_before is not None else "same-key"),
                                "after exchange %d the client reports a host key other than the one the signature of that "
                                "exchange was made and verified with" % j, desc)
            first_H = first_H or H
        if p.tc.session_id != first_H or p.ts.session_id != first_H:
            raise Violation(("C06", "session-id-changed"), "session id is not the first exchange hash after %d rekeys" % nrekey, desc)
        sim.probe("honest_exchanges_verified", len(exs))
    else:
        if not state["mutated"]:
            # the run never reached the target exchange (should not happen)
            raise RuntimeError("fault was never injected: %r errors=%r" % (desc, errors))
        c_newkeys = sum(1 for d, pk in tap.log if d == 0 and pk.ptype == 21)
        if state.get("noop"):
            sim.probe("mutation_was_noop")
            p.close()
            return {"sample": desc}
        if c_newkeys > target and state.get("same_values") == "mpint":
            raise Violation(("C06", "accepted-reencoded-same-value", "f-mpint-leading-zero"),
                            "client accepted a reply whose f was re-encoded with a redundant leading zero byte (same integer; "
                            "H is computed over the canonical re-encoding)", desc)
        if c_newkeys > target and state.get("same_values"):
            # every value (key, public value, algorithm name, r and s) is unchanged; only an inner
            # length prefix of the ECDSA signature encoding was altered and paramiko's lenient
            # Message reader clips it.  Reported under its own fingerprint.
            raise Violation(("C06", "accepted-reencoded-signature-same-values", fault[0]),
                            "client accepted a reply whose ECDSA signature blob had an inner length prefix altered "
                            "(values r, s unchanged; lenient mpint length handling)", desc)
        if c_newkeys > target:
            raise Violation(("C06", "client-sent-newkeys-after-altered-reply", fault[0], fault[1]),
                            "client sent NEWKEYS for exchange %d although the reply's %s was altered (%s)" % (target, fault[0], fault[1]), desc)
        if target == 0 and p.tc.initial_kex_done:
            raise Violation(("C06", "initial-kex-done-after-altered-reply", fault[0], fault[1]),
                            "client reports initial_kex_done although the first reply was altered", desc)
        if p.tc.is_active():
            raise Violation(("C06", "client-still-active-after-altered-reply", fault[0], fault[1]),
                            "client transport still active after an altered reply in exchange %d" % target, desc)
        if target == 0 and not errors:
            raise Violation(("C06", "start-client-did-not-raise", fault[0], fault[1]), "start_client returned normally", desc)
        sim.probe("altered_replies_rejected")
    p.close()
    return {"sample": desc, "nontrivial": True, "case_key": "%s|%s|%s|%s" % (kex, halgo, fault, target),
            "counts": ["kex:" + kex, "hostkey:" + halgo, "fault:%s" % (fault,)]}
