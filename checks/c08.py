"""C08 -- key exchange rejects invalid peer public values and out-of-range groups.

LINK engine, byzantine peer (a real Transport whose outgoing kex message has
one field replaced), both victim roles, enumerated values.  Oracle: for an
invalid value the victim derives no keys (never reaches the kex->transport
seam that stores K and H), sends no NEWKEYS for that exchange, and the
handshake fails; for a valid replacement it does derive keys (non-vacuity)."""
import struct

from cryptography.hazmat.primitives import serialization
from cryptography.hazmat.primitives.asymmetric import ec

from paramiko.kex_group1 import KexGroup1
from paramiko.kex_group14 import KexGroup14

from sim import ssh, wiretap, core
from sim.core import Violation
from sim.net import Link
from sim.wiretap import Reader, mpint

PROPERTY = "C08"
LEVEL = "fault_enumeration"

P1, P14 = KexGroup1.P, KexGroup14.P
DH_VALUES = ("-1", "0", "1", "2", "p-2", "p-1", "p", "p+1", "2p", "rand>p", "rand<0", "rand-in-range")
DH_KEX = (("diffie-hellman-group1-sha1", P1), ("diffie-hellman-group14-sha256", P14),
          ("diffie-hellman-group-exchange-sha256", P14))
EC_KEX = (("ecdh-sha2-nistp256", ec.SECP256R1), ("ecdh-sha2-nistp384", ec.SECP384R1), ("ecdh-sha2-nistp521", ec.SECP521R1))
EC_VALUES = ("truncated", "extended", "identity", "empty", "off-curve", "other-curve", "bad-prefix", "valid-other-point", "compressed")
X_VALUES = ("zero", "one", "low-order-3", "low-order-4", "p-1", "p", "p+1", "31-bytes", "33-bytes", "valid-other-point")
GEX_BITS = (512, 768, 1023, 1024, 2048, 8192, 8193, 16384, -2048)     # negative: an mpint with its top bit set
X_LOW = {
    "zero": bytes(32), "one": b"\x01" + bytes(31),
    "low-order-3": bytes.fromhex("e0eb7a7c3b41b8ae1656e3faf19fc46ada098deb9c32b1fd866205165f49b800"),
    "low-order-4": bytes.fromhex("5f9c95bca3508c24b1d0b1559c83ef5b04445cc4581c8e86d8224eddd09f1157"),
    "p-1": bytes.fromhex("ecffffffffffffffffffffffffffffffffffffffffffffffffffffffffffff7f"),
    "p": bytes.fromhex("edffffffffffffffffffffffffffffffffffffffffffffffffffffffffffff7f"),
    "p+1": bytes.fromhex("eeffffffffffffffffffffffffffffffffffffffffffffffffffffffffffff7f"),
}
CASES = ([("dh", k, P, v, role) for k, P in DH_KEX for v in DH_VALUES for role in ("client", "server")]
         + [("ec", k, c, v, role) for k, c in EC_KEX for v in EC_VALUES for role in ("client", "server")]
         + [("x25519", "curve25519-sha256@libssh.org", None, v, role) for v in X_VALUES for role in ("client", "server")]
         + [("gexp", "diffie-hellman-group-exchange-sha256", None, b, "client") for b in GEX_BITS]
         + [("gexp", "diffie-hellman-group-exchange-sha1", None, b, "client") for b in GEX_BITS])
BUDGET = {"quick": {"runs": len(CASES) * 2, "wall": 55}, "thorough": {"runs": len(CASES) * 60, "wall": 560}}
EXHAUSTIVE = True
RULE = ("Enumerated (%d cases): DH e/f in {-1,0,1,2,p-2,p-1,p,p+1,2p,random>p,random<0,random in range} x "
        "{group1, group14, gex} x victim role; EC points {truncated, extended, identity, empty, off-curve, other "
        "curve, bad prefix, valid other point, compressed} x 3 curves x role; X25519 {low-order points, 31/33 "
        "bytes, valid} x role; gex prime sizes 512..16384 bits." % len(CASES))
COMPONENTS = {"real": ["victim Transport + kex classes unmodified; adversary is a real Transport with one outgoing field replaced"],
              "simulated": ["socket", "clock", "scheduling", "entropy"]}
ASSUMPTIONS = ["'derives keys' is observed at the kex->transport seam (_set_K_H); a compressed but valid EC point is not demanded to be rejected"]


def sim_kw(seed):
    return {"max_steps": 400_000, "max_time": 3600.0}


def on_hang(sim, exc):
    """a transport thread that burns the whole step budget inside a kex class is a rejected-value failure"""
    from sim.core import SimBudget
    if isinstance(exc, SimBudget):
        for t in sim.tasks:
            frames = core.stack_of(t, limit=30) if t.thread is not None else []
            kf = [f for f in frames if f.startswith("kex_")]
            if kf and t.steps > 100000:
                where = kf[0].split(":")[0] + ":" + kf[0].split(":")[-1]
                return Violation(("C08", "invalid-peer-value-makes-kex-spin", where),
                                 "transport thread burned %d steps inside %s after an invalid peer value" % (t.steps, where))
    return None


def sstr(b):
    return struct.pack(">I", len(b)) + b


def dh_value(sim, name, P):
    return {"-1": -1, "0": 0, "1": 1, "2": 2, "p-2": P - 2, "p-1": P - 1, "p": P, "p+1": P + 1, "2p": 2 * P,
            "rand>p": P + 2 + sim.payload.randrange(P), "rand<0": -(2 + sim.payload.randrange(P)),
            "rand-in-range": 3 + sim.payload.randrange(P - 6)}[name]


def ec_value(sim, name, curve_cls):
    priv = ec.derive_private_key(12345 + sim.payload.randrange(1 << 64), curve_cls())
    pt = priv.public_key().public_bytes(serialization.Encoding.X962, serialization.PublicFormat.UncompressedPoint)
    if name == "truncated":
        return pt[:-1]
    if name == "extended":
        return pt + b"\x00"
    if name == "identity":
        return b"\x00"
    if name == "empty":
        return b""
    if name == "off-curve":
        return pt[:-1] + bytes([pt[-1] ^ 1])
    if name == "other-curve":
        other = ec.SECP384R1 if curve_cls is not ec.SECP384R1 else ec.SECP256R1
        return ec.derive_private_key(777, other()).public_key().public_bytes(
            serialization.Encoding.X962, serialization.PublicFormat.UncompressedPoint)
    if name == "bad-prefix":
        return b"\x05" + pt[1:]
    if name == "compressed":
        return priv.public_key().public_bytes(serialization.Encoding.X962, serialization.PublicFormat.CompressedPoint)
    return pt


def x_value(sim, name):
    if name in X_LOW:
        return X_LOW[name]
    from cryptography.hazmat.primitives.asymmetric.x25519 import X25519PrivateKey
    good = X25519PrivateKey.from_private_bytes(sim.payload.randbytes(32)).public_key().public_bytes(
        serialization.Encoding.Raw, serialization.PublicFormat.Raw)
    if name == "31-bytes":
        return good[:31]
    if name == "33-bytes":
        return good + b"\x00"
    return good


def scenario(sim):
    sim.p_switch = (0.02, 0.2)[sim.choose(2)]
    fam, kex, param, vname, victim = CASES[sim.seed % len(CASES)]
    gex = "group-exchange" in kex
    init_t = 32 if gex else 30
    reply_t = 33 if gex else 31
    state = {"done": False}
    if fam == "dh":
        val = dh_value(sim, vname, param)
        enc = mpint(val)
        valid = 1 <= val <= param - 1
    elif fam == "ec":
        raw = ec_value(sim, vname, param)
        enc = sstr(raw)
        valid = vname in ("valid-other-point", "compressed")
    elif fam == "x25519":
        raw = x_value(sim, vname)
        enc = sstr(raw)
        valid = vname == "valid-other-point"
    else:
        bits = vname
        if bits < 0:
            pval = -((1 << (-bits - 1)) | sim.payload.getrandbits(-bits - 1) | 1)
        else:
            pval = (1 << (bits - 1)) | sim.payload.getrandbits(bits - 1) | 1
        enc = None
        valid = 1024 <= bits <= 8192

    def mutate_out(pk, payload):
        if state["done"]:
            return [payload]
        t = payload[0]
        if fam == "gexp":
            if t == 31:    # GEX GROUP from the server: p, g
                state["done"] = True
                sim.fault("gex_group_replaced")
                return [bytes([31]) + mpint(pval) + mpint(2)]
            return [payload]
        if victim == "server" and t == init_t:
            state["done"] = True
            sim.fault("init_value_replaced")
            return [bytes([t]) + enc]
        if victim == "client" and t == reply_t:
            r = Reader(payload)
            r.byte()
            K_S = r.string()
            r.string()
            sig = r.string()
            state["done"] = True
            sim.fault("reply_value_replaced")
            return [bytes([t]) + sstr(K_S) + enc + sstr(sig)]
        return [payload]

    plog = []
    link = Link(sim, latency=((0.0, 0.01)[sim.choose(2)],) * 2)
    bpk = ssh.byzantine_packetizer("s" if victim == "client" else "c", plog, mutate_out=mutate_out)
    kw = {"server_pk": bpk} if victim == "client" else {"client_pk": bpk}
    p = ssh.tapped_pair(sim, link=link, plog=plog, **kw)
    for t in (p.tc, p.ts):
        ssh.configure(t, kex=kex)
    desc = {"family": fam, "kex": kex, "value": vname, "victim": victim, "valid": valid}
    err = None
    try:
        p.start(timeout=120)
    except Exception as e:
        err = e
    ssh.quiesce(sim, [link], (), settle=0.2, limit=20)
    if not state["done"]:
        raise RuntimeError("value was never injected (%r, err=%r)" % (desc, err))
    tap = p.tap
    vside = 0 if victim == "client" else 1
    vt = p.tc if victim == "client" else p.ts
    derived = len(tap.kh[vside]) > 0
    newkeys = sum(1 for d, pk in tap.log if d == vside and pk.ptype == 21)
    if fam == "gexp":
        sent_init = any(d == 0 and pk.ptype == 32 for d, pk in tap.log)
        if valid and not sent_init:
            raise Violation(("C08", "in-range-group-rejected", str(vname)), "client refused a %d-bit group: %r" % (vname, err), desc)
        if not valid and (sent_init or derived or newkeys):
            raise Violation(("C08", "out-of-range-group-accepted", "negative" if vname < 0 else ("small" if vname < 1024 else "large")),
                            "client continued the exchange with a %d-bit group (init sent=%s, keys derived=%s)"
                            % (vname, sent_init, derived), desc)
        if not valid and err is None:
            raise Violation(("C08", "handshake-did-not-fail", "gex-group"), "start_client returned normally", desc)
    else:
        if not valid:
            if derived or newkeys:
                raise Violation(("C08", "invalid-value-accepted", fam, vname if fam != "dh" else dhclass(vname), victim),
                                "%s derived keys from an invalid peer value (%s %s); NEWKEYS sent: %d"
                                % (victim, kex, vname, newkeys), desc)
            if vt.is_active() and vt.initial_kex_done:
                raise Violation(("C08", "handshake-completed", fam, victim), "victim completed the handshake", desc)
            if victim == "client" and err is None:
                raise Violation(("C08", "handshake-did-not-fail", fam), "start_client returned normally", desc)
            sim.probe("invalid_rejected")
        else:
            if not derived:
                raise Violation(("C08", "valid-value-rejected", fam, vname, victim),
                                "%s refused a valid peer value (%s %s): %r / %r" % (victim, kex, vname, err, vt.get_exception()), desc)
            sim.probe("valid_proceeded")
    p.close()
    return {"sample": desc, "case_key": "%s|%s|%s|%s" % (fam, kex, vname, victim), "nontrivial": True,
            "counts": [fam + ":" + victim]}


def dhclass(v):
    return {"-1": "negative", "rand<0": "negative", "0": "zero"}.get(v, "ge-p")
