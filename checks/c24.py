"""C24 -- a channel's pollable descriptor is readable iff recv would not block.

CHAN engine: real client/server transports; the server application writes
stdout/stderr, sends EOF or closes; client tasks call fileno(), recv,
recv_stderr, set_combine_stderr while the client's transport thread feeds the
channel.  Statement-level pre-emption inside pipe.py, buffered_pipe.py and
channel.py.  Oracle at quiescent points, through a real select() on the real
kernel pipe."""
import select as _select
import socket

import paramiko.buffered_pipe as bp_mod
import paramiko.channel as ch_mod
import paramiko.pipe as pipe_mod

from sim import ssh, shims, core
from sim.core import Violation, SimDeadlock, SimBudget

PROPERTY = "C24"
LEVEL = "exploration"
BUDGET = {"quick": {"runs": 3200, "wall": 60}, "thorough": {"runs": 120000, "wall": 560}}
RULE = ("Each run: one SSH connection, 3 channels in sequence; per channel a server program of "
        "send/send_stderr/EOF/close and 1-2 client reader tasks plus a fileno() caller, all racing "
        "the client's transport thread under seeded schedules with line pre-emption in pipe.py, "
        "buffered_pipe.py, channel.py; oracle evaluated at 2-3 quiescent points per channel.")
COMPONENTS = {"real": ["paramiko Transport/Channel/BufferedPipe/pipe (both peers)", "kernel pipe", "select()"],
              "simulated": ["socket", "clock", "thread scheduling", "entropy"]}
ASSUMPTIONS = ["Oracle is evaluated only at quiescent points (no task running, nothing in flight)."]
TRACE = {pipe_mod.__file__, bp_mod.__file__, ch_mod.__file__}


def sim_kw(seed):
    return {"trace_files": TRACE, "trace_opcodes": seed % 4 == 0, "max_steps": 3_000_000, "max_time": 3600.0}


# os.read on the notification pipe must never block the OS thread (it holds
# the baton): if the pipe is empty, turn it into a simulated wait.
def _safe_read(fd, n):
    r, _, _ = _select.select([fd], [], [], 0)
    if not r:
        sim = core.CURRENT
        if sim is not None and sim.holder():
            sim.probe("pipe_read_would_block")
            sim.pipe_blocked = True
            sim.block([], None)
        raise OSError("simulated: read on empty pipe")
    sim = core.CURRENT
    if sim is not None and sim.holder():
        sim.record("pipe_read", sim.current.name)
    return shims._real_os.read(fd, n)


def _rec_write(fd, data):
    sim = core.CURRENT
    if sim is not None and sim.holder():
        sim.record("pipe_write", sim.current.name)
    return shims._real_os.write(fd, data)


_pipe_os = shims.make_os(read=_safe_read, write=_rec_write)


def scenario(sim):
    sim.p_switch = (0.02, 0.05, 0.3)[sim.choose(3)]
    sim.p_preempt = (0.0, 0.01, 0.05, 0.2)[sim.choose(4)]
    sim.max_preempt = (0, 3, 6, 200)[sim.choose(4)]
    if sim.trace_opcodes:
        sim.p_preempt_store = (0.01, 0.05, 0.2)[sim.choose(3)]
    sim.pipe_blocked = False
    saved = pipe_mod.os
    pipe_mod.os = _pipe_os
    try:
        lat = (0.0, 0.001, 0.02)[sim.choose(3)]
        # no pre-emption during the handshake: spend the budget on the channel
        pp, sim.p_preempt = sim.p_preempt, 0.0
        p = ssh.connected_pair(sim, latency=(lat, lat))
        sim.p_preempt = pp
        samples = []
        for ep in range(3):
            samples.append(episode(sim, p, ep))
        p.close()
        return {"sample": samples[0], "nontrivial": True}
    finally:
        pipe_mod.os = saved


def expect_readable(ch):
    return bool(ch.recv_ready() or ch.recv_stderr_ready() or ch.eof_received or ch.closed)


def check(sim, ch, fd, where, desc):
    r, _, _ = _select.select([fd], [], [], 0)
    got = bool(r)
    exp = expect_readable(ch)
    sim.probe("oracle_evaluations")
    if exp:
        sim.probe("oracle_expected_readable")
    if got != exp:
        kind = "not-readable-although-data-or-eof" if exp else "readable-although-empty"
        raise Violation(("C24", kind),
                        "%s: select readable=%s but stdout_ready=%s stderr_ready=%s eof=%s closed=%s"
                        % (where, got, ch.recv_ready(), ch.recv_stderr_ready(), ch.eof_received,
                           ch.closed), {"episode": desc})


def episode(sim, p, ep):
    ch = p.tc.open_session()
    ch.settimeout(0.3)   # readers never block for ever (two readers may race for the same bytes)
    sch = p.ts.accept(10)
    if sch is None:
        raise RuntimeError("server accept failed")
    nphases = 1 + sim.choose(3)
    end_kind = sim.choose(4)      # 0: nothing, 1: server EOF, 2: server close, 3: eof then close
    fileno_at = sim.choose(4)     # 0: before any data, 1: racing phase 0, 2: after phase 0 quiesced, 3: only after EOF/close (or the last phase)
    fdbox = []
    desc = {"phases": [], "end": end_kind, "fileno_at": fileno_at}

    def call_fileno():
        fdbox.append(ch.fileno())

    if fileno_at == 0:
        call_fileno()
    for ph in range(nphases):
        sprog = []
        for _ in range(sim.choose(5)):
            # n == 0: a data message without data (legal on the wire; the API never produces one, so it is sent raw)
            sprog.append((("out", "err")[sim.choose(2)], (1 + sim.choose(40)) if sim.choose(8) else 0))
        rprogs = []
        for r in range(1 + sim.choose(2)):
            prog = []
            for _ in range(sim.choose(6)):
                k = sim.choose(8)
                if k <= 2:
                    prog.append(("recv", (1, 7, 100)[sim.choose(3)]))
                elif k <= 5:
                    prog.append(("recv_stderr", (1, 7, 100)[sim.choose(3)]))
                elif k == 6:
                    prog.append(("combine",) if sim.choose(3) else ("uncombine",))
                else:
                    prog.append(("timeout", (0.0, 0.01, 0.3)[sim.choose(3)]))
            rprogs.append(prog)
        desc["phases"].append({"server": sprog, "readers": rprogs})

        def server_task(prog=sprog):
            for kind, n in prog:
                data = bytes([65 + (n % 26)]) * n
                if n == 0:
                    from paramiko import Message
                    m = Message()
                    m.add_byte(bytes([94 if kind == "out" else 95]))
                    m.add_int(sch.remote_chanid)
                    if kind == "err":
                        m.add_int(1)
                    m.add_string(b"")
                    sch.get_transport()._send_user_message(m)
                    sim.fault("empty_data_message")
                    continue
                if kind == "out":
                    sch.sendall(data)
                else:
                    sch.sendall_stderr(data)

        def reader_task(prog):
            for op in prog:
                try:
                    if op[0] == "recv":
                        if ch.recv_ready() or ch.gettimeout() is not None:
                            ch.recv(op[1])
                    elif op[0] == "recv_stderr":
                        if ch.recv_stderr_ready() or ch.gettimeout() is not None:
                            ch.recv_stderr(op[1])
                    elif op[0] == "combine":
                        ch.set_combine_stderr(True)
                    elif op[0] == "uncombine":
                        ch.set_combine_stderr(False)
                    else:
                        ch.settimeout(op[1])
                except socket.timeout:
                    pass

        tasks = [sim.spawn(server_task, "srv-app")]
        for i, prog in enumerate(rprogs):
            tasks.append(sim.spawn(reader_task, "reader%d" % i, prog))
        if ph == 0 and fileno_at == 1:
            tasks.append(sim.spawn(call_fileno, "fileno"))
        ok = ssh.quiesce(sim, [p.link], tasks)
        if not ok:
            return hang(sim, tasks, desc)
        if ph == 0 and fileno_at == 2:
            call_fileno()
        if fdbox:
            check(sim, ch, fdbox[0], "ep%d phase%d" % (ep, ph), desc)
    if end_kind:
        def ender():
            if end_kind in (1, 3):
                sch.shutdown_write()
            if end_kind in (2, 3):
                sch.close()
        # race the end with a final (partial) reader
        dprog = [(sim.choose(2), (1, 5, 1000)[sim.choose(3)]) for _ in range(sim.choose(3))]

        def drain():
            try:
                ch.settimeout(0.0)
                for which, n in dprog:
                    if which == 0 and ch.recv_ready():
                        ch.recv(n)
                    if which == 1 and ch.recv_stderr_ready():
                        ch.recv_stderr(n)
            except socket.timeout:
                pass
        tasks = [sim.spawn(ender, "srv-end"), sim.spawn(drain, "drain")]
        if not ssh.quiesce(sim, [p.link], tasks):
            return hang(sim, tasks, desc)
        if fileno_at == 3:
            call_fileno()
            sim.probe("fileno_first_called_after_eof")
        check(sim, ch, fdbox[0], "ep%d end" % ep, desc)
        sim.probe("eof_or_close_checked")
        # drain both streams completely after EOF/close: the descriptor must stay readable
        def drain_all():
            try:
                ch.settimeout(0.0)
                for _ in range(50):
                    if not (ch.recv_ready() or ch.recv_stderr_ready()):
                        break
                    if ch.recv_ready():
                        ch.recv(1000)
                    if ch.recv_stderr_ready():
                        ch.recv_stderr(1000)
            except socket.timeout:
                pass
        tasks = [sim.spawn(drain_all, "drain-all")]
        if not ssh.quiesce(sim, [p.link], tasks):
            return hang(sim, tasks, desc)
        check(sim, ch, fdbox[0], "ep%d after-eof-drained" % ep, desc)
    elif fileno_at == 3:
        call_fileno()
        check(sim, ch, fdbox[0], "ep%d late-fileno" % ep, desc)
    ch.close()
    sch.close()
    return desc


def hang(sim, tasks, desc):
    if getattr(sim, "pipe_blocked", False):
        raise Violation(("C24", "pipe-read-on-empty-pipe"),
                        "a task blocked reading the notification pipe although it was empty "
                        "(lost set/clear pairing); the channel never quiesced", {"episode": desc})
    stuck = ["%s@%s" % (t.name, core.where_parked(t)) for t in tasks if t.state != core.DONE]
    raise Violation(("C24", "no-quiescence") + tuple(sorted(set(stuck))),
                    "channel did not quiesce: %s" % stuck, {"episode": desc})


def on_hang(sim, exc):
    if getattr(sim, "pipe_blocked", False):
        return Violation(("C24", "pipe-read-on-empty-pipe"),
                         "a task blocked reading the notification pipe although it was empty: %s" % exc)
    return None
