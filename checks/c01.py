"""C01 -- the encrypted packet layer delivers exactly the message stream sent.

PKT engine: real Packetizers keyed through the real Transport activation code,
writer and reader tasks over a simulated stream with fragmentation, short
writes and spurious timeouts, 0-3 key switches.  Oracles: received list ==
sent list; EOF exactly at a packet boundary; an independent RFC decoder reads
the same messages off the wire."""
from sim import pkt, wiretap
from sim.core import Violation

PROPERTY = "C01"
LEVEL = "exploration"
BUDGET = {"quick": {"runs": 6000, "wall": 50}, "thorough": {"runs": 400000, "wall": 560}}
RULE = ("Each run: one cipher x MAC x compression suite per epoch (seed index walks all suites), "
        "1-200 messages with boundary-biased lengths 1..70000, 0-3 key switches, receive "
        "fragmentation / short sends / spurious timeouts drawn per run.")
COMPONENTS = {"real": ["paramiko.packet.Packetizer", "Transport._activate_inbound/_outbound, _compute_key, _get_engine",
                       "paramiko.compress", "cryptography"],
              "simulated": ["socket (fragmentation, short writes, timeouts)", "clock", "scheduling", "entropy"]}
ASSUMPTIONS = ["Both endpoints are given the same (K, H, session id) and algorithm names, as a completed key exchange would."]
SUITES = pkt.suites()


def sim_kw(seed):
    return {"max_steps": 3_000_000, "max_time": 7200.0}


def pick_keyset(sim, idx, comp=None):
    cipher, mac = SUITES[idx % len(SUITES)]
    if comp is None:
        comp = pkt.COMP_NAMES[(idx // len(SUITES)) % len(pkt.COMP_NAMES)]
    hashname = ("sha1", "sha256", "sha384", "sha512")[sim.choose(4)]
    return pkt.KeySet(sim, cipher, mac, comp, hashname, bool(sim.choose(2)))


def scenario(sim):
    sim.p_switch = (0.02, 0.1, 0.5)[sim.choose(3)]
    idx = sim.seed
    nswitch = (1, 1, 2, 3, 4)[sim.choose(5)]      # first switch turns encryption on
    size_class = sim.choose(4)
    nmsg = (1 + sim.choose(8), 1 + sim.choose(40), 1 + sim.choose(200), 1 + sim.choose(30))[size_class]
    big_ok = size_class in (0, 3)
    authenticated = bool(sim.choose(2))
    script = []
    # a couple of cleartext messages first (as the KEXINIT phase would)
    for _ in range(sim.choose(3)):
        script.append(("msg", pkt.random_message(sim, False)))
    switch_points = sorted(sim.choose(nmsg + 1) for _ in range(nswitch - 1))
    ks = [pick_keyset(sim, idx)]
    for j in range(nswitch - 1):
        # compression stays what the first exchange negotiated (a rekey re-sends the same
        # KEXINIT lists; paramiko keeps a running compressor when a later exchange says "none")
        ks.append(pick_keyset(sim, idx + 17 * (j + 1) + sim.choose(len(SUITES)), ks[0].comp))
    script.append(("keys", ks[0]))
    ki = 1
    for i in range(nmsg):
        while ki < len(ks) and switch_points[ki - 1] == i:
            script.append(("keys", ks[ki]))
            ki += 1
        script.append(("msg", pkt.random_message(sim, big_ok)))
    while ki < len(ks):
        script.append(("keys", ks[ki]))
        ki += 1
    st = pkt.run_stream(sim, script, authenticated=authenticated)
    desc = {"suites": [k.describe() for k in ks], "messages": nmsg,
            "lengths": [len(v) for k, v in script if k == "msg"][:12], "authenticated": authenticated}
    check_stream(sim, st, script, desc, authenticated)
    return {"sample": desc, "counts": [k.cipher + "+" + k.mac for k in ks] + ["comp:" + k.comp for k in ks]}


def check_stream(sim, st, script, desc, authenticated, prop="C01"):
    exp = pkt.expected_stream(script)
    got = st["received"]
    if st["writer_exc"] is not None:
        raise Violation((prop, "writer-raised", type(st["writer_exc"]).__name__),
                        "sender raised %r on an honest stream" % (st["writer_exc"],), desc)
    if not st["finished"]:
        raise Violation((prop, "stream-stalled"),
                        "reader/writer did not finish: got %d of %d messages" % (len(got), len(exp)), desc)
    for i, (a, b) in enumerate(zip(got, exp)):
        if a != b:
            raise Violation((prop, "message-differs"),
                            "message %d differs: got type %d len %d, sent type %d len %d"
                            % (i, a[0], len(a), b[0], len(b)), desc)
    if len(got) != len(exp):
        raise Violation((prop, "message-count", "fewer" if len(got) < len(exp) else "more"),
                        "received %d messages, sent %d (reader ended with %r)"
                        % (len(got), len(exp), st["reader_exc"]), desc)
    if not isinstance(st["reader_exc"], EOFError):
        raise Violation((prop, "no-eof-at-boundary", type(st["reader_exc"]).__name__),
                        "after the sender closed, reader ended with %r instead of EOFError" % (st["reader_exc"],), desc)
    # independent decode of the wire
    try:
        packets, rest = pkt.tap_decode(st["wire"], st["keysets"], authenticated)
    except wiretap.TapError as e:
        raise Violation((prop, "tap-cannot-decode"), "independent decoder failed: %s" % e, desc)
    tp = [p.payload for p in packets]
    if tp != exp or rest:
        raise Violation((prop, "tap-decodes-different-stream"),
                        "independent decoder read %d messages (+%d stray bytes), sent %d"
                        % (len(tp), len(rest), len(exp)), desc)
    sim.probe("messages", len(exp))
    sim.probe("key_switches", len(st["keysets"]))
    return packets
