"""C26 -- BufferedPipe is a lossless FIFO with correct close/timeout rules.

UNIT engine: up to 3 tasks run feed/read/empty/close/len/read_ready programs on
one real BufferedPipe, line pre-emption inside buffered_pipe.py, stall faults.
Oracle: sequential model replayed in the order of the pipe lock's critical
sections (recorded by an instrumented simulated Lock)."""
import types

import paramiko.buffered_pipe as bp_mod
from paramiko.buffered_pipe import BufferedPipe, PipeTimeout

from sim import shims
from sim.core import Violation, SimDeadlock, SimBudget

PROPERTY = "C26"
LEVEL = "exploration"
BUDGET = {"quick": {"runs": 16000, "wall": 45}, "thorough": {"runs": 600000, "wall": 540}}
RULE = ("Each run: 1-3 tasks, <=12 operations drawn from feed/read(n,timeout)/empty/close/len/"
        "read_ready on one BufferedPipe, schedule and stalls drawn from the seed, line-level "
        "pre-emption inside buffered_pipe.py.")
COMPONENTS = {"real": ["paramiko.buffered_pipe.BufferedPipe"],
              "simulated": ["threading.Lock/Condition", "time.time", "thread scheduling"]}
ASSUMPTIONS = ["All BufferedPipe state changes happen while its single lock is held (checked "
               "indirectly: the model replayed in lock order must explain every result)."]
TRACE = {bp_mod.__file__}


def sim_kw(seed):
    return {"trace_files": TRACE, "trace_opcodes": seed % 4 == 0, "max_steps": 200000, "max_time": 600.0}


class ILock(shims.Lock):
    """Simulated lock that remembers, per task, its latest critical section."""
    __slots__ = ("last",)

    def __init__(self):
        shims.Lock.__init__(self)
        self.last = {}

    def acquire(self, blocking=True, timeout=-1):
        r = shims.Lock.acquire(self, blocking, timeout)
        if r and self._sim is not None and self._sim.current is not None:
            self.last[self._sim.current.idx] = self.csn
        return r

    def _acquire_restore(self, saved):
        shims.Lock._acquire_restore(self, saved)
        self.last[self._sim.current.idx] = self.csn


_mod = types.ModuleType("simthreading_c26")
_mod.__dict__.update({k: getattr(shims.simthreading, k) for k in
                      ("RLock", "Condition", "Event", "Timer", "Thread", "current_thread",
                       "local", "get_ident")})
_mod.Lock = ILock

TIMEOUT = "PipeTimeout"


def scenario(sim):
    # swarm knobs
    sim.p_switch = (0.0, 0.05, 0.3, 0.9)[sim.choose(4)]
    sim.p_preempt = (0.0, 0.01, 0.1, 0.3)[sim.choose(4)]
    sim.max_preempt = (0, 2, 4, 50)[sim.choose(4)]
    if sim.trace_opcodes:
        sim.p_preempt_store = (0.01, 0.05, 0.2)[sim.choose(3)]
    sim.p_stall = (0.0, 0.0, 0.02, 0.1)[sim.choose(4)]
    ntasks = 1 + sim.choose(3)
    nops = 1 + sim.choose(12)
    saved = bp_mod.threading
    bp_mod.threading = _mod
    try:
        pipe = BufferedPipe()
    finally:
        bp_mod.threading = saved
    # find the instrumented lock without naming private attributes
    ilock = None
    for v in vars(pipe).values():
        if isinstance(v, ILock):
            ilock = v
    if ilock is None:
        raise RuntimeError("BufferedPipe no longer builds its lock via threading.Lock()")
    counter = [0]
    programs = [[] for _ in range(ntasks)]
    for i in range(nops):
        t = sim.choose(ntasks)
        k = sim.choose(10)
        if k <= 2:
            n = 1 + sim.choose(20)
            data = bytes((counter[0] + j) % 251 for j in range(n))
            counter[0] += n
            programs[t].append(("feed", data))
        elif k <= 6:
            n = (1, 1, 2, 5, 16, 64, 1000)[sim.choose(7)]
            to = (None, 0.0, 0, 0.001, 0.05, 1.0, 30.0)[sim.choose(7)]
            programs[t].append(("read", n, to))
        elif k == 7:
            programs[t].append(("empty",))
        elif k == 8:
            programs[t].append(("close",))
        else:
            programs[t].append(("len",) if sim.choose(2) else ("read_ready",))
    done_ops = []

    def do(op):
        name = op[0]
        me = sim.current.idx
        try:
            if name == "feed":
                res = pipe.feed(op[1])
            elif name == "read":
                res = pipe.read(op[1], op[2])
            elif name == "empty":
                res = pipe.empty()
            elif name == "close":
                res = pipe.close()
            elif name == "len":
                res = len(pipe)
            else:
                res = pipe.read_ready()
        except PipeTimeout:
            res = TIMEOUT
        done_ops.append((ilock.last[me], me, op, res))

    def runner(prog):
        for op in prog:
            do(op)

    tasks = [sim.spawn(runner, "worker%d" % i, programs[i]) for i in range(ntasks)]
    # wait (virtual) for workers; un-timed reads on a pipe nobody closes may
    # legitimately block, so the driver closes the pipe after a while.
    closed_by_driver = False
    deadline = sim.now + 200.0
    while any(t.state != 2 for t in tasks):
        sim.sleep(1.0)
        if sim.now > deadline and not closed_by_driver:
            do(("close",))
            closed_by_driver = True
            deadline = sim.now + 100.0
        elif sim.now > deadline:
            stuck = [t for t in tasks if t.state != 2]
            raise Violation(("C26", "liveness", "read blocked on closed pipe"),
                            "a read is still blocked %.0fs after close()" % 100.0,
                            {"programs": repr(programs)})
    do(("empty",))
    check_model(sorted(done_ops), programs)
    sim.probe("ops", len(done_ops))
    if any(r == TIMEOUT for _, _, _, r in done_ops):
        sim.probe("timeout_raised")
    if closed_by_driver:
        sim.probe("driver_closed_pipe")
    return {"sample": {"programs": [[fmt(o) for o in p] for p in programs]},
            "nontrivial": ntasks > 1}


def fmt(op):
    if op[0] == "feed":
        return "feed(%d bytes)" % len(op[1])
    return repr(op)


def check_model(ops, programs):
    buf = b""
    closed = False
    last = -1
    for csn, task, op, res in ops:
        if csn == last:
            raise Violation(("C26", "lock", "two operations in one critical section"),
                            "operations share critical section %d" % csn)
        last = csn
        name = op[0]
        if name == "feed":
            buf += op[1]
        elif name == "read":
            n, to = op[1], op[2]
            if res == TIMEOUT:
                if to is None:
                    raise Violation(("C26", "timeout", "untimed read raised PipeTimeout"),
                                    "read(%d, None) raised PipeTimeout" % n)
                if buf:
                    raise Violation(("C26", "timeout", "PipeTimeout with data buffered"),
                                    "read(%d, timeout=%r) raised PipeTimeout although %d bytes "
                                    "were buffered at its last critical section" % (n, to, len(buf)),
                                    {"ops": fmt_ops(ops)})
            elif res == b"":
                if not (closed and not buf):
                    raise Violation(("C26", "empty-read", "read returned empty on open or non-drained pipe"),
                                    "read(%d) returned b'' with closed=%s and %d bytes buffered"
                                    % (n, closed, len(buf)), {"ops": fmt_ops(ops)})
            else:
                exp = buf[:n]
                if res != exp:
                    raise Violation(("C26", "fifo", "read returned wrong bytes"),
                                    "read(%d) returned %r, model expected %r" % (n, res, exp),
                                    {"ops": fmt_ops(ops)})
                buf = buf[len(res):]
        elif name == "empty":
            if res != buf:
                raise Violation(("C26", "fifo", "empty returned wrong bytes"),
                                "empty() returned %r, model expected %r" % (res, buf),
                                {"ops": fmt_ops(ops)})
            buf = b""
        elif name == "close":
            closed = True
        elif name == "len":
            if res != len(buf):
                raise Violation(("C26", "len", "len disagrees with model"),
                                "len() = %r, model %d" % (res, len(buf)), {"ops": fmt_ops(ops)})
        elif name == "read_ready":
            if res != (len(buf) > 0):
                raise Violation(("C26", "read_ready", "read_ready disagrees with model"),
                                "read_ready() = %r, model buffer %d" % (res, len(buf)),
                                {"ops": fmt_ops(ops)})
    if buf:
        raise Violation(("C26", "fifo", "bytes left after final empty"), "model has %d bytes left" % len(buf))


def fmt_ops(ops):
    return ["cs%d t%d %s -> %s" % (c, t, fmt(o), (r if not isinstance(r, bytes) else "%d bytes" % len(r)))
            for c, t, o, r in ops]


def on_hang(sim, exc):
    if isinstance(exc, SimDeadlock):
        return Violation(("C26", "liveness", "deadlock"), str(exc))
    return None
