"""C12 -- unrecognised message types get UNIMPLEMENTED and the session continues.

LINK engine, byzantine peer (a real, authenticated Transport that additionally
emits raw messages of unassigned / idle type numbers with random payloads),
both victim roles.  Oracle: exactly one UNIMPLEMENTED per offending packet,
carrying that packet's sequence number as counted by the independent wiretap;
an echo over a channel still works afterwards; UNIMPLEMENTED itself is never
answered."""
import struct

from paramiko import Message

from sim import ssh, core
from sim.core import Violation
from sim.net import Link

PROPERTY = "C12"
LEVEL = "fault_enumeration"
UNASSIGNED = [0] + list(range(8, 20)) + list(range(22, 30)) + list(range(42, 50)) + list(range(54, 60)) + \
    list(range(67, 80)) + list(range(83, 90)) + list(range(101, 256))
IDLE_METHOD_SPECIFIC = list(range(30, 42)) + list(range(60, 67))
# Types the protocol assigns but that have no handler in ONE role once authenticated (a client has nothing to do with
# SERVICE_REQUEST or USERAUTH_REQUEST, a server nothing with SERVICE_ACCEPT or USERAUTH_SUCCESS ...).  Which numbers
# have a handler is a frozen reference (the dispatch of an authenticated, idle transport per role), NOT read from the
# tree under test: a change that registers a handler in the wrong role must not switch its own test case off.
HANDLED = {"client": {1, 2, 3, 4, 6, 7, 20, 21, 51, 52, 53, 60} | set(range(80, 83)) | set(range(90, 101)),
           "server": {1, 2, 3, 4, 5, 7, 20, 21, 50, 61} | set(range(80, 83)) | set(range(90, 101))}
ROLE_SPECIFIC = [5, 6, 50, 51, 52, 53]
CANDIDATES = UNASSIGNED + IDLE_METHOD_SPECIFIC + ROLE_SPECIFIC
BATCH = 8
NBATCH = (len(CANDIDATES) + BATCH - 1) // BATCH
BUDGET = {"quick": {"runs": NBATCH * 2 * 3, "wall": 50}, "thorough": {"runs": NBATCH * 2 * 200, "wall": 560}}
EXHAUSTIVE = True
RULE = ("Enumerated: every type number that RFC 4250-4256 leave unassigned (0, 8-19, 22-29, 42-49, 54-59, 67-79, "
        "83-89, 101-255), that is method-specific and idle outside an exchange (30-41, 60-66) or that is assigned to the "
        "OTHER role only (5, 6, 50-53), and that has no handler in the victim's role per a frozen reference of the dispatch, "
        "x both victim roles, in batches of %d per run with random payloads; "
        "plus an UNIMPLEMENTED sent by the adversary in every run." % BATCH)
COMPONENTS = {"real": ["victim Transport unmodified; adversary real Transport emitting extra raw messages through its own packetizer"],
              "simulated": ["socket", "clock", "scheduling", "entropy"], "oracle": ["wiretap sequence numbers"]}
ASSUMPTIONS = ["'has no handler in the current role and state' is decided by a frozen reference of the dispatch of an authenticated idle "
               "transport per role (taken from the unchanged tree and recorded in the check), not by the tables of the tree under test"]


def sim_kw(seed):
    return {"max_steps": 2_000_000, "max_time": 3600.0}


def rekey_window(sim):
    """The unknown messages arrive after the victim has sent its own KEXINIT for a re-key and before the peer's KEXINIT
    (latency makes the window): state 'exchange requested, nothing expected yet'.  Same oracle; the exchange must
    also complete."""
    sim.p_switch = (0.02, 0.2)[sim.choose(2)]
    victim_role = ("server", "client")[sim.choose(2)]
    lat = (0.1, 0.3)[sim.choose(2)]
    link = Link(sim, latency=(lat, lat))
    plog = []
    # the adversary does not look at the UNIMPLEMENTED replies (a paramiko peer in the middle of an exchange would
    # abort on them, which is that peer's business, not the victim's)
    akey = "client_pk" if victim_role == "server" else "server_pk"
    aside0 = "c" if victim_role == "server" else "s"
    pkw = {akey: ssh.byzantine_packetizer(aside0, plog, filter_in=lambda pk, ptype, payload: ptype == 3)}
    p = ssh.tapped_pair(sim, link=link, plog=plog, **pkw)
    p.plog = plog
    p.start(timeout=60)
    p.wait_server()
    p.auth_password()
    ch = p.tc.open_session(timeout=30)
    sch = p.ts.accept(30)
    ch.settimeout(30); sch.settimeout(30)
    victim, adv = (p.ts, p.tc) if victim_role == "server" else (p.tc, p.ts)
    vside, aside = ("s", "c") if victim_role == "server" else ("c", "s")
    adir = 0 if aside == "c" else 1
    pool = list(range(30, 42)) + [0, 8, 45, 59, 70, 150, 255] + [t for t in ROLE_SPECIFIC if t not in HANDLED[victim_role]]
    types = [pool[sim.choose(len(pool))] for _ in range(1 + sim.choose(4))]
    desc = {"victim": victim_role, "types": types, "state": "victim sent KEXINIT, peer's KEXINIT not yet received", "latency": lat}
    res = {}

    def rk():
        try:
            victim.renegotiate_keys()
            res["rk"] = "ok"
        except Exception as e:
            res["rk"] = e
    t = sim.spawn(rk, "rekey")
    sim.sleep(lat * 0.1)
    sent = []
    for ty in types:
        m = Message()
        m.add_bytes(bytes([ty]) + sim.payload.randbytes((0, 4, 40)[sim.choose(3)]))
        before = len(p.tap.dirs[adir].packets)
        adv.packetizer.send_message(m)
        sent.append((ty, p.tap.dirs[adir].packets[before].seqno))
        sim.fault("unknown_type_sent_into_rekey_window")
    sim.join_task(t, 60)
    ssh.quiesce(sim, [link], (), settle=0.2, limit=10)
    if res.get("rk") != "ok" or not victim.is_active():
        raise Violation(("C12", "session-ended", "rekey-window", type(res.get("rk")).__name__),
                        "victim %s: re-key did not complete after unknown types %s arrived in its window: %r / %r"
                        % (victim_role, types, res.get("rk"), victim.get_exception()), desc)
    replies = [struct.unpack(">I", e[5][1:5])[0] for e in p.plog
               if e[2] == vside and e[3] == "tx" and e[4] == 3 and len(e[5]) >= 5]
    want = [s for _, s in sent]
    if replies != want:
        missing = [ty for ty, s in sent if s not in replies]
        kind = "missing" if len(replies) < len(want) else ("extra" if len(replies) > len(want) else "wrong-seqno")
        raise Violation(("C12", "unimplemented-replies-" + kind, "rekey-window"),
                        "sent unknown types %s with seqnos %s into the victim's re-key window; UNIMPLEMENTED replies carried %s "
                        "(unanswered types: %s)" % (types, want, replies, missing), desc)
    if not ssh.echo_round(sim, ch, sch, 100, 100):
        raise Violation(("C12", "session-not-usable-afterwards", "rekey-window"), "echo failed afterwards", desc)
    sim.probe("unknown_types_answered_in_rekey_window", len(sent))
    p.close()
    return {"sample": desc, "case_key": "rekey-window|%s|%s" % (victim_role, types), "nontrivial": True, "counts": ["rekey-window"]}


def scenario(sim):
    if sim.seed % 6 == 5:
        return rekey_window(sim)
    sim.p_switch = (0.02, 0.2)[sim.choose(2)]
    i = sim.seed
    victim_role = ("server", "client")[i % 2]
    batch = (i // 2) % NBATCH
    types = CANDIDATES[batch * BATCH:(batch + 1) * BATCH]
    lat = (0.0, 0.01)[sim.choose(2)]
    link = Link(sim, latency=(lat, lat))
    strict = (True, True, False)[sim.choose(3)], (True, True, False)[sim.choose(3)]
    p = ssh.tapped_pair(sim, link=link, client_kw={"strict_kex": strict[0]}, server_kw={"strict_kex": strict[1]})
    p.start(timeout=60)
    p.wait_server()
    p.auth_password()
    ch = p.tc.open_session(timeout=30)
    sch = p.ts.accept(30)
    ch.settimeout(30); sch.settimeout(30)
    victim, adv = (p.ts, p.tc) if victim_role == "server" else (p.tc, p.ts)
    vside, aside = ("s", "c") if victim_role == "server" else ("c", "s")
    adir = 0 if aside == "c" else 1
    live = set(HANDLED[victim_role])
    actual = set(victim._handler_table) | set(victim._channel_handler_table) | {1, 2, 3, 4}
    if victim.auth_handler is not None:
        actual |= set(victim.auth_handler._handler_table)
    if actual != live:
        sim.probe("dispatch_tables_differ_from_reference")
    # some numbers are sent more than once in the same session
    types = list(types) + [types[sim.choose(len(types))] for _ in range(sim.choose(3))]
    desc = {"victim": victim_role, "types": types, "strict": strict}
    sent = []
    for t in types:
        if t in live:
            sim.probe("skipped_has_handler")
            continue
        n = (0, 1, 4, 40, 300)[sim.choose(5)]
        m = Message()
        m.add_bytes(bytes([t]) + sim.payload.randbytes(n))
        before = len(p.tap.dirs[adir].packets)
        try:
            adv.packetizer.send_message(m)
        except (EOFError, OSError):
            break       # the connection is already gone; judged below
        pk = p.tap.dirs[adir].packets[before]
        sent.append((t, pk.seqno))
        sim.fault("unknown_type_sent")
        if sim.choose(2):
            ssh.quiesce(sim, [link], (), settle=0.1, limit=5)
    # an UNIMPLEMENTED from the adversary must not be answered
    m = Message()
    m.add_bytes(bytes([3]) + struct.pack(">I", 12345))
    try:
        adv.packetizer.send_message(m)
    except (EOFError, OSError):
        pass
    ssh.quiesce(sim, [link], (), settle=0.2, limit=10)
    replies = [struct.unpack(">I", e[5][1:5])[0] for e in p.plog
               if e[2] == vside and e[3] == "tx" and e[4] == 3 and len(e[5]) >= 5]
    exc = victim.get_exception()
    if not victim.is_active():
        raise Violation(("C12", "session-ended", type(exc).__name__, frame_of(exc)),
                        "victim %s went inactive after receiving types %s: %r" % (victim_role, [t for t, _ in sent], exc), desc)
    want = [s for _, s in sent]
    if replies != want:
        missing = [t for t, s in sent if s not in replies]
        kind = "missing" if len(replies) < len(want) else ("extra" if len(replies) > len(want) else "wrong-seqno")
        raise Violation(("C12", "unimplemented-replies-" + kind),
                        "sent unknown types %s with seqnos %s; UNIMPLEMENTED replies carried %s (unanswered types: %s)"
                        % ([t for t, _ in sent], want, replies, missing), desc)
    try:
        ok = ssh.echo_round(sim, ch, sch, 100, 100)
    except Exception as e:
        ok = False
    if not ok:
        raise Violation(("C12", "session-not-usable-afterwards"), "echo failed after the unknown messages", desc)
    sim.probe("unknown_types_answered", len(sent))
    p.close()
    return {"sample": desc, "case_key": "%s#%d" % (victim_role, batch), "nontrivial": True, "counts": [victim_role]}


def frame_of(exc):
    tb = getattr(exc, "__traceback__", None)
    best = "?"
    while tb is not None:
        fn = tb.tb_frame.f_code.co_filename
        if "/paramiko/" in fn:
            best = "%s:%s" % (fn.rsplit("/", 1)[1], tb.tb_frame.f_code.co_name)
        tb = tb.tb_next
    return best
