"""C04 -- session keys follow RFC 4253 section 7.2 and match across the peers.

LINK engine: real client and server transports do a real key exchange for a
seeded (kex, cipher, MAC, compression, host key) combination, authenticate,
exchange channel data and rekey 0-2 times.  A passive wiretap, keyed ONLY by its
own RFC derivation from (K, H, session id) and the letters A-F, must decrypt
and MAC-verify every packet of both directions in every epoch."""
from sim import ssh, wiretap
from sim.core import Violation
from sim.net import Link, NetKnobs

PROPERTY = "C04"
LEVEL = "exploration"
BUDGET = {"quick": {"runs": 1400, "wall": 55}, "thorough": {"runs": 40000, "wall": 570}}
RULE = ("Each run: one (kex, cipher, MAC, compression, host key algorithm) combination -- seed index walks "
        "kex x cipher x MAC pairwise -- 0-2 rekeys initiated by either side, channel traffic in "
        "every epoch, latency and fragmentation drawn per run; in a quarter of the runs the client offers different "
        "ciphers and MACs for the two directions.")
COMPONENTS = {"real": ["paramiko Transport/kex/packetizer/channel on both peers", "cryptography", "PyNaCl"],
              "simulated": ["socket", "clock", "scheduling", "entropy (seeded os.urandom and key generation)"],
              "oracle": ["sim/wiretap.py: independent decoder + RFC 7.2 derivation"]}
ASSUMPTIONS = ["(K, H) are captured at the kex->transport seam (_set_K_H); key lengths above 64 bytes are not needed by any algorithm"]
CIPHERS = tuple(wiretap.CIPHERS)
MACS = tuple(wiretap.MACS)
KEXES = ssh.KEX_NAMES
HOSTALGOS = tuple(ssh.HOSTKEY_ALGOS)


def sim_kw(seed):
    return {"max_steps": 3_000_000, "max_time": 7200.0}


def scenario(sim):
    sim.p_switch = (0.02, 0.1, 0.4)[sim.choose(3)]
    i = sim.seed
    # cheap kex most of the time, every kex regularly
    if i % 3 == 0:
        kex = KEXES[(i // 3) % len(KEXES)]
    else:
        kex = ("curve25519-sha256@libssh.org", "ecdh-sha2-nistp256", "diffie-hellman-group1-sha1",
               "ecdh-sha2-nistp384")[(i // 3) % 4]
    cipher = CIPHERS[i % len(CIPHERS)]
    mac = MACS[(i // len(CIPHERS)) % len(MACS)]
    comp = ("none", "none", "zlib", "zlib@openssh.com")[sim.choose(4)]
    halgo = HOSTALGOS[sim.choose(len(HOSTALGOS))]
    lat = (0.0, 0.005, 0.05)[sim.choose(3)]
    ka, kb = NetKnobs(), NetKnobs()
    for k in (ka, kb):
        k.p_frag = (0.0, 0.3)[sim.choose(2)]
        k.p_short = (0.0, 0.2)[sim.choose(2)]
    link = Link(sim, latency=(lat, lat), knobs_a=ka, knobs_b=kb)
    asym = None
    if i % 4 == 1:
        # the client (adversary side, consistent and RFC-conforming) offers DIFFERENT ciphers and MACs for the two
        # directions; the unmodified server has to key each direction for its own algorithm
        cipher2 = CIPHERS[(i // 4 + sim.choose(len(CIPHERS))) % len(CIPHERS)]
        mac2 = MACS[(i // 4 + 1 + sim.choose(len(MACS) - 1)) % len(MACS)]
        asym = {"enc_s2c": cipher2, "mac_s2c": mac2}
        from paramiko import Transport
        p = ssh.tapped_pair(sim, link=link, host_keys=(ssh.HOSTKEY_ALGOS[halgo],),
                            client_cls=ssh.asymmetric_client(Transport, cipher, cipher2, mac, mac2))
        ssh.configure(p.tc, kex=kex, cipher=[cipher, cipher2], mac=[mac, mac2], comp=comp, hostkey_algo=halgo)
        ssh.configure(p.ts, kex=kex, comp=comp, hostkey_algo=halgo)
        sim.probe("asymmetric_directions")
    else:
        p = ssh.tapped_pair(sim, link=link, host_keys=(ssh.HOSTKEY_ALGOS[halgo],))
        for t in (p.tc, p.ts):
            ssh.configure(t, kex=kex, cipher=cipher, mac=mac, comp=comp, hostkey_algo=halgo)
    nrekey = (0, 1, 1, 2)[sim.choose(4)]
    desc = {"kex": kex, "cipher": cipher, "mac": mac, "comp": comp, "hostkey": halgo, "rekeys": nrekey, "asymmetric": asym}
    stage = "key exchange"
    try:
        p.start()
        p.wait_server()
        stage = "authentication"
        p.auth_password()
        stage = "channel"
        ch = p.tc.open_session()
        sch = p.ts.accept(30)
        if sch is None:
            raise Violation(("C04", "session-failed", "accept"), "server accept() failed", desc)
        ok = ssh.echo_round(sim, ch, sch, 1 + sim.choose(3000), 1 + sim.choose(3000))
        for r in range(nrekey):
            stage = "re-key %d" % (r + 1)
            who = p.tc if sim.choose(2) == 0 else p.ts
            if asym is None and sim.choose(2):
                # the next exchange uses another method (and with it another hash for H and the key derivation),
                # another cipher and MAC: nothing of the previous exchange may be carried over
                kex2 = ("diffie-hellman-group14-sha256", "diffie-hellman-group16-sha512", "ecdh-sha2-nistp521",
                        "diffie-hellman-group14-sha1", "curve25519-sha256@libssh.org", "ecdh-sha2-nistp384")[sim.choose(6)]
                c2 = CIPHERS[sim.choose(len(CIPHERS))]
                m2 = MACS[sim.choose(len(MACS))]
                for t in (p.tc, p.ts):
                    ssh.configure(t, kex=kex2, cipher=c2, mac=m2)
                desc.setdefault("rekey_algorithms", []).append([kex2, c2, m2])
                sim.probe("rekey_with_other_algorithms")
            who.renegotiate_keys()
            ok = ssh.echo_round(sim, ch, sch, 1 + sim.choose(3000), 1 + sim.choose(3000)) and ok
    except Violation:
        raise
    except Exception as e:
        if type(e).__name__ in ("SimAbort", "SimBudget", "SimDeadlock"):
            raise
        # two honest peers that derive their keys per RFC understand each other: a session that breaks is the symptom
        raise Violation(("C04", "session-failed", stage.split(" ")[0], type(e).__name__, "asymmetric" if asym else "symmetric"),
                        "honest session broke during %s: %r (client exc %r, server exc %r; tap: %s)"
                        % (stage, e, p.tc.get_exception(), p.ts.get_exception(), p.tap.error), desc)
    if not ok:
        raise Violation(("C04", "session-failed", "echo"), "channel echo returned wrong data", desc)
    ssh.quiesce(sim, [link], (), settle=0.2, limit=30)
    check_keys(sim, p, desc, expect_exchanges=1 + nrekey)
    p.close()
    return {"sample": desc, "case_key": "%s|%s|%s|%s|%s|%d" % (kex, cipher, mac, comp, halgo, nrekey),
            "nontrivial": True, "counts": ["kex:" + kex, "cipher:" + cipher, "mac:" + mac]}


def check_keys(sim, p, desc, expect_exchanges=None):
    tap = p.tap
    if tap.error is not None:
        d, msg = tap.error
        raise Violation(("C04", "tap-cannot-decode", "c2s" if d == 0 else "s2c"),
                        "packets sent by the %s cannot be decoded with the RFC 4253 7.2 keys: %s"
                        % ("client" if d == 0 else "server", msg), desc)
    kc, ks = tap.kh[0], tap.kh[1]
    if expect_exchanges is not None and (len(kc) < expect_exchanges or len(ks) < expect_exchanges):
        raise Violation(("C04", "exchange-count"), "expected %d exchanges, client did %d, server %d"
                        % (expect_exchanges, len(kc), len(ks)), desc)
    for i, (a, b) in enumerate(zip(kc, ks)):
        if a != b:
            raise Violation(("C04", "peers-disagree-on-K-H"), "exchange %d: K/H differ between peers" % i, desc)
    # what each side's packetizer was asked to send must be what the tap decoded
    for d, side in ((0, "c"), (1, "s")):
        sent = [e[5] for e in p.plog if e[2] == side and e[3] == "tx"]
        seen = [pk.payload for dd, pk in tap.log if dd == d]
        if tap.dirs[d].buf and len(seen) < len(sent):
            raise Violation(("C04", "tap-stalled", side),
                            "tap decoded %d of %d packets sent by %s (undecodable remainder of %d bytes)"
                            % (len(seen), len(sent), side, len(tap.dirs[d].buf)), desc)
        for j, (x, y) in enumerate(zip(sent, seen)):
            if x != y:
                raise Violation(("C04", "tap-decodes-different-payload", side),
                                "packet %d from %s decodes to different plaintext" % (j, side), desc)
    per_ex = {}
    for ex, d, ks_ in tap.keysets:
        per_ex.setdefault(ex, {})[d] = ks_
    for ex, both in per_ex.items():
        if 0 in both and 1 in both:
            a, b = both[0], both[1]
            # (cipher, mac, comp, key, iv, mackey, ...)
            if a[3] == b[3] or a[4] == b[4] or (a[5] is not None and a[5] == b[5]):
                raise Violation(("C04", "directions-share-key"), "exchange %d: a key/IV/MAC key is shared between directions" % ex, desc)
    sim.probe("epochs_decoded", len(tap.keysets))
    sim.probe("packets_decoded", len(tap.log))
