"""C09 -- strict key exchange stops handshake sequence-number manipulation.

LINK engine with a packet-level man-in-the-middle on the cleartext part of the
initial handshake: inject IGNORE / DEBUG / UNIMPLEMENTED / unassigned type 192 /
a second KEXINIT at every packet position in either direction, optionally
deleting the first k encrypted packets of that direction (Terrapin-style prefix
truncation), for several kex families and strict-kex on both / one / neither
side.  Oracle (both strict): the victim is dead once it has received the
injected message and the peer's KEXINIT, emits nothing afterwards, and no
working session ever exists; honest strict sessions must work and be decodable
by a wiretap that restarts its sequence counters at every NEWKEYS."""
import struct

from sim import ssh, wiretap, core
from sim.core import Violation
from sim.net import Link, EOF, RESET

PROPERTY = "C09"
LEVEL = "fault_enumeration"
KEXES = ("curve25519-sha256@libssh.org", "ecdh-sha2-nistp256", "diffie-hellman-group1-sha1",
         "diffie-hellman-group-exchange-sha256", "diffie-hellman-group14-sha256", "ecdh-sha2-nistp384")
INJ = {"IGNORE": bytes([2]) + struct.pack(">I", 3) + b"abc",
       "DEBUG": bytes([4, 0]) + struct.pack(">I", 2) + b"hi" + struct.pack(">I", 0),
       "UNIMPLEMENTED": bytes([3]) + struct.pack(">I", 0),
       "TYPE192": bytes([192]) + b"xyz",
       "GLOBAL_REQUEST": bytes([80]) + struct.pack(">I", 13) + b"tcpip-forward" + b"\x01" + struct.pack(">I", 9) + b"127.0.0.1" + struct.pack(">I", 0),
       "CHANNEL_OPEN": bytes([90]) + struct.pack(">I", 7) + b"session" + struct.pack(">III", 0, 2097152, 32768),
       "KEXINIT2": None}       # a copy of the sender's own KEXINIT
STRICT = ((True, True), (True, True), (True, True), (True, False), (False, True), (False, False))
POSITIONS = 4
CASES = [(k, d, pos, inj, st, dele)
         for k in range(len(KEXES)) for d in (0, 1) for pos in range(POSITIONS) for inj in INJ
         for st in range(len(STRICT)) for dele in (0, 1)]
HONEST_EVERY = 5
BUDGET = {"quick": {"runs": 2200, "wall": 55}, "thorough": {"runs": len(CASES) * 4, "wall": 570}}
RULE = ("Enumerated cases (%d): kex family x direction x packet position in the cleartext handshake x injected "
        "message kind x strict flags x (with/without deleting the first encrypted packet); every %dth run is an "
        "honest strict session with 0-2 rekeys checked by the wiretap.  Quick samples the case list with a stride."
        % (len(CASES), HONEST_EVERY))
COMPONENTS = {"real": ["both Transports unmodified"], "simulated": ["socket with packet-level MITM on the cleartext handshake", "clock", "scheduling", "entropy"]}
ASSUMPTIONS = ["The MITM learns encrypted packet boundaries from segment boundaries (no short writes in this check)."]


def sim_kw(seed):
    return {"max_steps": 2_000_000, "max_time": 3600.0}


def frame(payload):
    pad = 8 - ((len(payload) + 5) % 8)
    if pad < 4:
        pad += 8
    return struct.pack(">IB", len(payload) + pad + 1, pad) + payload + bytes(pad)


class Mitm:
    def __init__(self, sim, d, pos, inj, delete):
        self.sim = sim
        self.d, self.pos, self.inj, self.delete = d, pos, inj, delete
        self.buf = [bytearray(), bytearray()]
        self.banner = [False, False]
        self.count = [0, 0]
        self.encrypted = [False, False]
        self.injected = False
        self.deleted = 0
        self.kexinit = [None, None]

    def __call__(self, link, d, data):
        if self.encrypted[d]:
            if d == self.d and self.injected and self.deleted < self.delete:
                self.deleted += 1
                self.sim.fault("encrypted_packet_deleted")
                return ()
            return (data,)
        out = bytearray()
        b = self.buf[d]
        b += data
        if not self.banner[d]:
            nl = b.find(b"\n")
            if nl < 0:
                return ()
            out += b[:nl + 1]
            del b[:nl + 1]
            self.banner[d] = True
        while len(b) >= 5:
            plen = struct.unpack_from(">I", b, 0)[0]
            if len(b) < 4 + plen:
                break
            pkt = bytes(b[:4 + plen])
            del b[:4 + plen]
            ptype = pkt[5]
            if ptype == 20 and self.kexinit[d] is None:
                self.kexinit[d] = pkt
            if d == self.d and self.count[d] == self.pos and not self.injected:
                inj = INJ[self.inj]
                if inj is None:
                    inj_pkt = self.kexinit[d] or pkt
                else:
                    inj_pkt = frame(inj)
                out += inj_pkt
                self.injected = True
                self.sim.fault("injected_" + self.inj)
                self.sim.record("mitm_inject", d, self.inj, self.pos)
            out += pkt
            self.count[d] += 1
            if ptype == 21:
                self.encrypted[d] = True
                out += b
                del b[:]
                break
        return (bytes(out),) if out else ()


def session_works(sim, p):
    try:
        p.wait_server(10)
        p.tc.auth_timeout = 20
        p.auth_password()
        ch = p.tc.open_session(timeout=20)
        sch = p.ts.accept(20)
        if sch is None:
            return False
        ch.settimeout(20); sch.settimeout(20)
        return ssh.echo_round(sim, ch, sch, 200, 200)
    except Exception:
        return False


def scenario(sim):
    sim.p_switch = (0.02, 0.2)[sim.choose(2)]
    i = sim.seed
    if i % HONEST_EVERY == 0:
        return honest(sim, i // HONEST_EVERY)
    case = CASES[(i * 7919) % len(CASES)]
    k, d, pos, inj, st, dele = case
    kex = KEXES[k]
    strict_c, strict_s = STRICT[st]
    link = Link(sim, latency=((0.0, 0.01)[sim.choose(2)],) * 2)
    mitm = Mitm(sim, d, pos, inj, dele)
    link.tap = mitm
    p = ssh.Pair(sim, link=link, client_kw={"strict_kex": strict_c}, server_kw={"strict_kex": strict_s})
    p.ts._modulus_pack = ssh.modulus_pack()
    for t in (p.tc, p.ts):
        ssh.configure(t, kex=kex)
    desc = {"kex": kex, "direction": "c2s" if d == 0 else "s2c", "position": pos, "inject": inj,
            "strict": [strict_c, strict_s], "delete_encrypted": dele}
    err = None
    try:
        p.start(timeout=60)
    except Exception as e:
        err = e
    works = False
    if err is None:
        works = session_works(sim, p)
    ssh.quiesce(sim, [link], (), settle=0.2, limit=20)
    if not mitm.injected:
        sim.probe("position_beyond_handshake")
        p.close()
        return {"sample": desc, "counts": ["not-injected"]}
    victim = p.ts if d == 0 else p.tc
    vside = "s" if d == 0 else "c"
    both = strict_c and strict_s
    if both:
        if works:
            raise Violation(("C09", "working-session-after-injection", inj, "pos0" if pos == 0 else "mid"),
                            "both peers strict, %s injected at position %d (%s): a working session was still established"
                            % (inj, pos, desc["direction"]), desc)
        if victim.is_active() and victim.initial_kex_done:
            raise Violation(("C09", "victim-alive-after-injection", inj), "victim still active with initial kex done", desc)
        # kill point: victim has received both the injected message and the peer's KEXINIT
        inj_type = {"IGNORE": 2, "DEBUG": 4, "UNIMPLEMENTED": 3, "TYPE192": 192, "KEXINIT2": 20, "GLOBAL_REQUEST": 80,
                    "CHANNEL_OPEN": 90}[inj]
        rx = [e for e in p.plog if e[2] == vside and e[3] == "rx"]
        seen_kexinit = 0
        seen_inj = False
        kill_seq = None
        for e in rx:
            if e[4] == 20:
                seen_kexinit += 1
            if e[4] == inj_type and (inj != "KEXINIT2" or seen_kexinit >= 2):
                seen_inj = True
            if seen_inj and seen_kexinit >= 1:
                kill_seq = e[0]
                break
        if kill_seq is not None:
            later = [e for e in p.plog if e[2] == vside and e[0] > kill_seq and e[3] == "tx" and e[4] != 1]
            later_rx = [e for e in rx if e[0] > kill_seq]
            if later or later_rx:
                raise Violation(("C09", "victim-continued-after-unexpected-message", inj, "pos0" if pos == 0 else "mid"),
                                "strict victim kept going after receiving %s (position %d): later tx types %s, rx types %s"
                                % (inj, pos, [e[4] for e in later][:5], [e[4] for e in later_rx][:5]), desc)
            sim.probe("strict_victim_stopped_at_injection")
        else:
            sim.probe("victim_died_before_reading_injection")
    else:
        sim.probe("nonstrict_runs")
        if works:
            sim.probe("nonstrict_session_survived")
        # non-vacuity of the injector: without strict mode an injected IGNORE/DEBUG is read and the
        # victim carries on with the exchange (it later trips over the MAC, which is not our business)
        inj_type = {"IGNORE": 2, "DEBUG": 4, "UNIMPLEMENTED": 3, "TYPE192": 192, "KEXINIT2": 20, "GLOBAL_REQUEST": 80,
                    "CHANNEL_OPEN": 90}[inj]
        rxs = [e[0] for e in p.plog if e[2] == vside and e[3] == "rx" and e[4] == inj_type]
        if rxs and any(e[2] == vside and e[3] == "tx" and e[0] > rxs[0] and e[4] in (21, 31, 33, 30, 32) for e in p.plog):
            sim.probe("nonstrict_victim_continued_kex_after_injection")
    p.close()
    return {"sample": desc, "case_key": repr(case), "nontrivial": True,
            "counts": ["strict-both" if both else "strict-partial", "inject:" + inj]}


def honest(sim, j):
    kex = KEXES[j % len(KEXES)]
    cipher = tuple(wiretap.CIPHERS)[(j // len(KEXES)) % len(wiretap.CIPHERS)]
    link = Link(sim, latency=((0.0, 0.01)[sim.choose(2)],) * 2)
    # one run in three: one side behaves like OpenSSH and puts the strict marker into its INITIAL KEXINIT only; the
    # other (unmodified) side has to stay in strict mode through the re-keys all the same
    once = (None, None, "client", "server")[sim.choose(4)]
    from paramiko import Transport
    pkw = {}
    if once:
        pkw["client_cls" if once == "client" else "server_cls"] = ssh.strict_marker_only_initially(Transport)
    p = ssh.tapped_pair(sim, link=link, **pkw)
    comp = ("none", "none", "zlib", "zlib@openssh.com")[sim.choose(4)]
    for t in (p.tc, p.ts):
        ssh.configure(t, kex=kex, cipher=cipher, comp=comp)
    nrekey = sim.choose(3) if not once else 1 + sim.choose(2)
    desc = {"honest": True, "kex": kex, "cipher": cipher, "compression": comp, "rekeys": nrekey,
            "strict_marker_only_in_initial_kexinit_of": once}

    def probe_seqno():
        # each side answers an unassigned message type with UNIMPLEMENTED(sequence number it counted for that packet):
        # the only place where a peer's INBOUND counter shows on the wire (AEAD suites do not put it into a MAC)
        from paramiko import Message
        for t in (p.tc, p.ts):
            m = Message()
            m.add_byte(bytes([192]))
            m.add_string("probe")
            t.packetizer.send_message(m)
        ssh.quiesce(sim, [link], (), settle=0.1, limit=10)
    try:
        p.start(timeout=60)
        ok = session_works(sim, p)
        probe_seqno()
        for r in range(nrekey):
            (p.tc, p.ts)[sim.choose(2)].renegotiate_keys()
            ch = p.tc.open_session(timeout=20)
            sch = p.ts.accept(20)
            ok = ok and ssh.echo_round(sim, ch, sch, 100, 100)
            probe_seqno()
    except Exception as e:
        raise Violation(("C09", "honest-strict-session-failed", type(e).__name__), "honest strict session failed: %r" % (e,), desc)
    if not ok:
        raise Violation(("C09", "honest-strict-session-failed", "echo"), "honest strict session: echo failed", desc)
    ssh.quiesce(sim, [link], (), settle=0.2, limit=20)
    tap = p.tap
    if not all(n.get("strict") for n in tap.negs):
        raise RuntimeError("strict kex was not negotiated in an honest default session")
    if tap.error is not None:
        raise Violation(("C09", "sequence-numbers-not-reset", "c2s" if tap.error[0] == 0 else "s2c"),
                        "a wiretap that restarts its sequence counter at every NEWKEYS cannot verify the %s stream: %s"
                        % ("client" if tap.error[0] == 0 else "server", tap.error[1]), desc)
    # first packet after each NEWKEYS must carry sequence number 0
    for d in (0, 1):
        prev = None
        for dd, pk in tap.log:
            if dd != d:
                continue
            if prev == 21 and pk.seqno != 0:
                raise Violation(("C09", "sequence-numbers-not-reset", "tap"), "seqno %d after NEWKEYS" % pk.seqno, desc)
            prev = pk.ptype
    # UNIMPLEMENTED replies must name the sequence number the wiretap counted for the probe they answer
    for d in (0, 1):
        probes = [pk.seqno for dd, pk in tap.log if dd == d and pk.ptype == 192]
        answers = [struct.unpack(">I", pk.payload[1:5])[0] for dd, pk in tap.log if dd == 1 - d and pk.ptype == 3 and len(pk.payload) >= 5]
        if probes != answers:
            raise Violation(("C09", "sequence-numbers-not-reset", "inbound-counter-of-" + ("server" if d == 0 else "client")),
                            "%s answered probes sent with sequence numbers %s by UNIMPLEMENTED%s: its inbound counter is "
                            "not the one strict kex prescribes" % ("server" if d == 0 else "client", probes, answers), desc)
        sim.probe("inbound_counters_checked", len(probes))
    sim.probe("honest_strict_sessions")
    p.close()
    return {"sample": desc, "nontrivial": True, "case_key": "honest|%s|%s|%s|%d" % (kex, cipher, comp, nrekey), "counts": ["honest"]}
