"""C31 -- SFTP attribute changes have their local-filesystem meaning.

SFTP engine (real SFTPClient/SFTPFile and SFTPServer over a real channel of a
simulated transport pair; the served directory's chattr goes through
SFTPServer.set_file_attr, the standard helper the property names).
Generated: per file random contents and a program of chmod / chown / utime /
truncate (smaller, equal, larger) by path (SFTPClient) and by open handle
(SFTPFile, opened in several modes, optionally after a buffered write), plus
mkdir with a mode.
Oracle: after every operation the served file's bytes and os.stat (permission
bits, size, integer times, owner) equal those of a twin file that received the
corresponding os.chmod / os.chown / os.utime / os.truncate; an operation the
local call refuses must be refused remotely."""
import os
import random
import stat as statmod

from sim import core
from sim.core import Violation
from sim.sftpsim import SftpSession

PROPERTY = "C31"
LEVEL = "exploration"
BUDGET = {"quick": {"runs": 1600, "wall": 40}, "thorough": {"runs": 80000, "wall": 560}}
RULE = ("Each run: 3 files on one connection; per file contents of 0..70000 bytes and 1-8 attribute operations "
        "(chmod/chown/utime/truncate by path or by handle, mkdir with mode), compared with a twin after each operation.")
COMPONENTS = {"real": ["SFTPClient, SFTPFile, SFTPServer incl. SFTPServer.set_file_attr, SFTPAttributes, transports, channel",
                       "scratch directory on the real filesystem (os.chmod/chown/utime/truncate really happen)"],
              "harness": ["SFTPServerInterface over the scratch directory whose chattr calls SFTPServer.set_file_attr"],
              "simulated": ["socket", "clock", "scheduling", "entropy"]}
ASSUMPTIONS = ["runs as root in the sandbox, so chown to foreign ids succeeds locally and remotely alike",
               "times are integers (SFTP v3 carries 32-bit seconds)"]
MINIMIZE_CASES = True
SIZES = (0, 1, 10, 255, 4096, 32768, 70000)
MODES_BITS = (0o600, 0o644, 0o400, 0o755, 0o7777 & 0o1777, 0o640, 0o000, 0o666)
HANDLE_MODES = ("r", "r+", "a", "a+")


def sim_kw(seed):
    return {"max_steps": 3_000_000, "max_time": 3600.0}


def content(seed, n):
    return random.Random(seed).randbytes(n)


def gen_case(sim):
    size = SIZES[sim.choose(len(SIZES))]
    ops = []
    for _ in range(1 + sim.choose(8)):
        via = ("path", "handle")[sim.choose(2)]
        hmode = HANDLE_MODES[sim.choose(len(HANDLE_MODES))]
        k = sim.choose(8)
        if k < 3:
            if hmode == "r":
                hmode = "r+"        # a local file opened read-only refuses truncate; the harness handle would not
            target = (0, 1, 5, size // 2, max(size - 1, 0), size, size + 1, size + 100, 2 * size + 7, 100000)[sim.choose(10)]
            pre = (0, 0, 3, 5000)[sim.choose(4)] if via == "handle" and hmode != "r" else 0
            ops.append(["truncate", via, hmode, target, pre])
        elif k < 5:
            ops.append(["chmod", via, hmode, MODES_BITS[sim.choose(len(MODES_BITS))]])
        elif k < 6:
            ops.append(["chown", via, hmode, (0, 1, 12345)[sim.choose(3)], (0, 1, 54321)[sim.choose(3)]])
        elif k < 7:
            ops.append(["utime", via, hmode, (0, 1, 1000000000, 1700000000, 2 ** 31 - 1)[sim.choose(5)],
                        (0, 5, 1234567890, 1700000001, 2 ** 31 - 1)[sim.choose(5)]])
        else:
            ops.append(["mkdir", MODES_BITS[sim.choose(len(MODES_BITS))]])
    return {"size": size, "data_seed": sim.choose(1000), "ops": ops, "pipelined": bool(sim.choose(3) == 0)}


def pattern(case, upto=None):
    ops = case["ops"] if upto is None else case["ops"][:upto + 1]
    out = []
    for op in ops:
        if op[0] == "mkdir":
            out.append("mkdir")
        elif op[0] == "truncate":
            rel = "smaller" if op[3] < case["size"] else "equal" if op[3] == case["size"] else "larger"
            out.append("truncate-%s-by-%s%s" % (rel, op[1], "(%s%s)" % (op[2], "+pending-write" if op[4] else "")
                                                  if op[1] == "handle" else ""))
        else:
            out.append("%s-by-%s" % (op[0], op[1]))
    return " ".join(out)


def scenario(sim):
    sim.p_switch = (0.02, 0.1)[sim.choose(2)]
    s = SftpSession(sim, latency=(0.0, 0.002)[sim.choose(2)])
    try:
        if getattr(sim, "case", None) is not None:
            run_case(sim, s, sim.case, 0)
            return {"nontrivial": True}
        first = None
        for fi in range(3):
            case = gen_case(sim)
            first = first or case
            run_case(sim, s, case, fi)
    finally:
        s.close()
    return {"sample": first, "nontrivial": True, "case_key": "%d|%s" % (first["size"], pattern(first)),
            "counts": [op[0] for op in first["ops"]]}


def snapshot(path):
    st = os.stat(path)
    d = {"mode": statmod.S_IMODE(st.st_mode), "size": st.st_size, "atime": int(st.st_atime), "mtime": int(st.st_mtime),
         "uid": st.st_uid, "gid": st.st_gid}
    return d


def run_case(sim, s, case, fi):
    name = "a%d.bin" % fi
    data = content(case["data_seed"], case["size"])
    for p in (s.rpath(name), s.lpath(name)):
        if os.path.exists(p):
            os.chmod(p, 0o600)
            os.unlink(p)
    s.put_both(name, data)
    for p in (s.rpath(name), s.lpath(name)):
        os.chmod(p, 0o644)
        os.utime(p, (1600000000, 1600000000))

    def fail(fp, msg, i):
        raise Violation(fp, msg, {"case": case, "pattern": pattern(case, i)})

    for i, op in enumerate(case["ops"]):
        kind = op[0]
        lex = rex = None
        times_set = False
        if kind == "mkdir":
            dn = "d%d_%d" % (fi, i)
            for p in (s.rpath(dn), s.lpath(dn)):
                if os.path.isdir(p):
                    os.rmdir(p)
            try:
                os.mkdir(s.lpath(dn))
                os.chmod(s.lpath(dn), op[1])
            except OSError as e:
                lex = e
            try:
                s.sftp.mkdir(dn, op[1])
            except Exception as e:
                rex = e
            if (lex is None) != (rex is None):
                fail(("C31", "raises-differs", "mkdir"), "mkdir(mode %o): local %r remote %r" % (op[1], lex, rex), i)
            a, b = statmod.S_IMODE(os.stat(s.lpath(dn)).st_mode), statmod.S_IMODE(os.stat(s.rpath(dn)).st_mode)
            if a != b:
                fail(("C31", "stat-differs", "mkdir", "mode"), "mkdir(mode %o): local dir mode %o, served dir mode %o" % (op[1], a, b), i)
            for p in (s.rpath(dn), s.lpath(dn)):
                os.chmod(p, 0o700)
                os.rmdir(p)
            sim.probe("ops_compared")
            continue
        via, hmode = op[1], op[2]
        lp, rp = s.lpath(name), s.rpath(name)
        # make sure the files can be opened by handle whatever an earlier chmod did (we are root anyway)
        pre = b""
        if kind == "truncate" and op[4]:
            pre = content(op[4] + 17, op[4])
        lf = rf = None
        # ---- local reference
        try:
            if via == "handle":
                lf = open(lp, hmode + "b")
                if pre:
                    lf.write(pre)
                local_apply(kind, op, lp, lf)
            else:
                local_apply(kind, op, lp, None)
        except (OSError, ValueError) as e:
            lex = e
        # ---- remote
        try:
            if via == "handle":
                rf = s.sftp.open(name, hmode + "b", (0, 65536)[1 if pre else 0])
                if case.get("pipelined"):
                    rf.set_pipelined(True)
                if pre:
                    rf.write(pre)
                remote_apply(kind, op, rf)
            else:
                remote_apply_path(kind, op, s.sftp, name)
        except Exception as e:
            rex = e
        # the change has to be in effect when the call returns, not only once the handle is closed
        if via == "handle" and lex is None and rex is None and kind in ("truncate", "chmod", "chown"):
            a0, b0 = snapshot(lp), snapshot(rp)
            for k in ("size", "mode", "uid", "gid"):
                if a0[k] != b0[k]:
                    for f in (lf, rf):
                        try:
                            f.close()
                        except Exception:
                            pass
                    fail(("C31", "stat-differs", kind, k, "while-handle-open"),
                         "step %d %s: right after the call returned (handle still open%s) %s of twin is %r, of served file %r"
                         % (i, op, ", pipelined" if case.get("pipelined") else "", k, a0[k], b0[k]), i)
            sim.probe("compared_while_handle_open")
        for f, side in ((lf, "l"), (rf, "r")):
            if f is not None:
                try:
                    f.close()
                except Exception as e:
                    if side == "l":
                        lex = lex or e
                    else:
                        rex = rex or e
        if kind == "utime":
            times_set = True
        if (lex is None) != (rex is None):
            fail(("C31", "raises-differs", kind, via, "local-raises" if lex else "remote-raises"),
                 "step %d %s: local %s, remote %s" % (i, op, "raised %r" % lex if lex else "ok", "raised %r" % rex if rex else "ok"), i)
        a, b = snapshot(lp), snapshot(rp)       # before reading the contents (reading may update atime)
        with open(lp, "rb") as f:
            want = f.read()
        with open(rp, "rb") as f:
            got = f.read()
        if want != got:
            j = 0
            while j < min(len(want), len(got)) and want[j] == got[j]:
                j += 1
            what = "lost-leading-bytes" if j < min(len(want), len(got)) and j < case["size"] else "size-or-padding"
            fail(("C31", "contents-differ", kind, what),
                 "step %d %s: twin has %d bytes, served file %d bytes, first difference at %d (file was %d bytes; pattern %s)"
                 % (i, op, len(want), len(got), j, case["size"], pattern(case, i)), i)
        keys = ["mode", "size", "uid", "gid"]
        if kind == "utime":
            keys += ["atime", "mtime"]
        for k in keys:
            if a[k] != b[k]:
                fail(("C31", "stat-differs", kind, k),
                     "step %d %s: %s of twin %r, of served file %r (pattern %s)" % (i, op, k, a[k], b[k], pattern(case, i)), i)
        sim.probe("ops_compared")
        sim.probe("op_" + kind + "_" + via)


def local_apply(kind, op, path, lf):
    if kind == "truncate":
        if lf is not None:
            lf.truncate(op[3])
        else:
            os.truncate(path, op[3])
    elif kind == "chmod":
        if lf is not None:
            os.fchmod(lf.fileno(), op[3])
        else:
            os.chmod(path, op[3])
    elif kind == "chown":
        if lf is not None:
            os.fchown(lf.fileno(), op[3], op[4])
        else:
            os.chown(path, op[3], op[4])
    elif kind == "utime":
        if lf is not None:
            lf.flush()
        os.utime(path, (op[3], op[4]))


def remote_apply(kind, op, rf):
    if kind == "truncate":
        rf.truncate(op[3])
    elif kind == "chmod":
        rf.chmod(op[3])
    elif kind == "chown":
        rf.chown(op[3], op[4])
    elif kind == "utime":
        rf.utime((op[3], op[4]))


def remote_apply_path(kind, op, sftp, name):
    if kind == "truncate":
        sftp.truncate(name, op[3])
    elif kind == "chmod":
        sftp.chmod(name, op[3])
    elif kind == "chown":
        sftp.chown(name, op[3], op[4])
    elif kind == "utime":
        sftp.utime(name, (op[3], op[4]))


def same_class(fp_a, fp_b):
    return list(fp_a[:4]) == list(fp_b[:4])


def case_candidates(case):
    ops = case["ops"]
    n = len(ops)

    def with_(**kw):
        c = dict(case)
        c.update(kw)
        return c
    size = n // 2
    while size >= 1:
        for i in range(0, n, size):
            yield with_(ops=ops[:i] + ops[i + size:])
        size //= 2
    if case.get("pipelined"):
        yield with_(pipelined=False)
    for small in SIZES:
        if small < case["size"]:
            yield with_(size=small)
    for i, op in enumerate(ops):
        if op[0] == "truncate":
            if op[4]:
                yield with_(ops=ops[:i] + [op[:4] + [0]] + ops[i + 1:])
            if op[1] == "handle":
                yield with_(ops=ops[:i] + [[op[0], "path"] + op[2:4] + [0]] + ops[i + 1:])
            for v in (0, 1, 5):
                if v < op[3]:
                    yield with_(ops=ops[:i] + [op[:3] + [v, op[4]]] + ops[i + 1:])
        elif op[0] in ("chmod", "chown", "utime") and op[1] == "handle":
            yield with_(ops=ops[:i] + [[op[0], "path"] + op[2:]] + ops[i + 1:])
