"""C11 -- key re-exchange is transparent to whatever traffic is in flight.

CHAN engine with a latency-controlled link (0-500 ms each way): application
tasks on both sides stream channel data, issue channel requests with replies,
global requests, channel opens/closes and keepalives while one or both sides
start a re-exchange (explicitly or through scaled thresholds) at a seeded
instant, so connection-layer messages cross the KEXINITs in both directions.
Oracle 1 (wire): between its KEXINIT and its NEWKEYS a side emits only message
types 1..49.  Oracle 2 (progress): the exchange completes, both transports stay
up, every request is answered and every byte arrives."""
import socket

from paramiko.ssh_exception import SSHException

from sim import ssh, wiretap, core
from sim.core import Violation
from sim.net import Link

PROPERTY = "C11"
LEVEL = "exploration"
BUDGET = {"quick": {"runs": 900, "wall": 55}, "thorough": {"runs": 30000, "wall": 570}}
RULE = ("Each run: latency 0-500 ms per direction, 1-3 channels, seeded programs of data writes, channel requests "
        "with want_reply, global requests both ways, channel open/close, a channel half-closed and closed from both ends, "
        "optional keepalives, and 1-2 re-exchanges "
        "started by client, server or both at seeded instants (explicit call or scaled thresholds).")
COMPONENTS = {"real": ["both Transports, Channels, Packetizers unmodified"], "simulated": ["socket with latency", "clock", "scheduling", "entropy"],
              "oracle": ["ObservingPacketizer wire-order log; byte ledgers; API results"]}
ASSUMPTIONS = ["SERVICE_REQUEST/ACCEPT (5/6) inside the window are only counted (the property says transport-layer messages are fine)",
               "task completion limit 120 virtual seconds: far above every RTT used and above clear_to_send_timeout (30 s), so a stall is reported as what it ends in"]
LIMIT = 120.0


def _find_lines():
    """Source lines of Transport._parse_newkeys at which a second application thread may be released (found by
    their text, so that an edited tree is still instrumented or, failing that, the directed shape is skipped)."""
    import inspect
    import paramiko.transport as t_mod
    out = {}
    try:
        src, first = inspect.getsourcelines(t_mod.Transport._parse_newkeys)
    except Exception:
        return out
    for i, line in enumerate(src):
        t = line.strip()
        if t == "self.local_kex_init = self.remote_kex_init = None":
            out[(t_mod.__file__, first + i + 1)] = "newkeys-state-reset"
        elif t == "self.clear_to_send_lock.acquire()":
            out[(t_mod.__file__, first + i)] = "newkeys-before-lock"
        elif t == "self.clear_to_send_lock.release()":
            out[(t_mod.__file__, first + i)] = "newkeys-before-unlock"
    return out


WATCH = _find_lines()


def sim_kw(seed):
    kw = {"max_steps": 6_000_000, "max_time": 7200.0}
    if seed % 3 == 0:
        # statement-level pre-emption inside the functions that start and finish an exchange
        import paramiko.transport as t_mod
        kw.update(trace_files={t_mod.__file__},
                  trace_funcs={"_parse_newkeys", "_send_kex_init", "_send_kex_init_locked", "renegotiate_keys",
                               "_send_user_message", "_parse_kex_init", "_activate_outbound"})
    return kw


def auth_phase(sim):
    """A re-exchange (started by either side) that crosses the client's authentication: service request / accept and
    the authentication messages are traffic in flight too.  Same two oracles; in addition the authentication must
    complete."""
    sim.p_switch = (0.02, 0.1, 0.3)[sim.choose(3)]
    lat_c = (0.0, 0.01, 0.1)[sim.choose(3)]
    lat_s = (0.0, 0.01, 0.1)[sim.choose(3)]
    link = Link(sim, latency=(lat_c, lat_s))
    plog = []
    p = ssh.Pair(sim, link=link, client_pk=ssh.observing_packetizer("c", plog), server_pk=ssh.observing_packetizer("s", plog))
    p.plog = plog
    method = ("password", "publickey", "none-then-password")[sim.choose(3)]
    who = sim.choose(3)
    d_rk = [(0.0, 0.001, 0.02, 0.1, 0.3)[sim.choose(5)] for _ in range(2)]
    d_au = (0.0, 0.001, 0.02, 0.1)[sim.choose(4)]
    desc = {"family": "re-exchange during authentication", "latency": [lat_c, lat_s], "method": method,
            "rekey_by": ("client", "server", "both")[who], "delays": [d_rk, d_au]}
    if method == "publickey":
        p.server.allowed_keys.append(ssh.key("ed25519_2"))
    p.start(timeout=60)
    p.wait_server()
    res = {}

    def rekey(t, d, name):
        sim.sleep(d)
        try:
            t.renegotiate_keys()
            res[name] = "ok"
        except Exception as e:
            res[name] = e

    def auth():
        sim.sleep(d_au)
        try:
            if method == "password":
                p.tc.auth_password("alice", "pw")
            elif method == "publickey":
                p.tc.auth_publickey("alice", ssh.key("ed25519_2"))
            else:
                try:
                    p.tc.auth_none("alice")
                except Exception as e:
                    if type(e).__name__ != "BadAuthenticationType":
                        raise
                p.tc.auth_password("alice", "pw")
            res["auth"] = "ok"
        except Exception as e:
            res["auth"] = e
    tasks = [sim.spawn(auth, "auth")]
    if who in (0, 2):
        tasks.append(sim.spawn(rekey, "rekey_c", p.tc, d_rk[0], "rekey_c"))
    if who in (1, 2):
        tasks.append(sim.spawn(rekey, "rekey_s", p.ts, d_rk[1], "rekey_s"))
    end = sim.now + LIMIT
    while any(t.state != core.DONE for t in tasks) and sim.now < end:
        sim.sleep(0.25)
    # oracle 1 here also covers the authentication layer (types 50-79) inside the sender's own exchange
    check_wire(sim, plog, desc)
    stuck = [t for t in tasks if t.state != core.DONE]
    if stuck:
        raise Violation(("C11", "task-stuck", "auth-phase") + tuple(sorted(set("%s@%s" % (t.name, core.where_parked(t)) for t in stuck))),
                        "after %.0f virtual seconds still blocked: %s" % (LIMIT, [t.name for t in stuck]), desc)
    for k, v in sorted(res.items()):
        if v != "ok":
            raise Violation(("C11", "operation-failed", "auth-phase", k.rstrip("_cs"), type(v).__name__),
                            "%s failed with %r while a re-exchange crossed the authentication; client exc=%r server exc=%r"
                            % (k, v, p.tc.get_exception(), p.ts.get_exception()), desc)
    if not (p.tc.is_active() and p.ts.is_active() and p.tc.is_authenticated()):
        raise Violation(("C11", "session-dropped", "auth-phase"),
                        "after authentication and re-exchange: client active=%s authenticated=%s, server active=%s"
                        % (p.tc.is_active(), p.tc.is_authenticated(), p.ts.is_active()), desc)
    # the session must be usable
    ch = p.tc.open_session(timeout=30)
    sch = p.ts.accept(30)
    if sch is None or not ssh.echo_round(sim, ch, sch, 100, 100):
        raise Violation(("C11", "session-dropped", "auth-phase", "echo"), "echo on a fresh channel failed afterwards", desc)
    sim.probe("auth_phase_runs")
    p.close()
    return {"sample": desc, "nontrivial": True, "counts": ["auth-phase"]}


def scenario(sim):
    if sim.seed % 6 == 5:
        return auth_phase(sim)
    sim.p_switch = (0.02, 0.1, 0.3)[sim.choose(3)]
    if sim.trace_files:
        sim.p_preempt = (0.02, 0.1, 0.3)[sim.choose(3)]
        sim.max_preempt = (4, 12, 60)[sim.choose(3)]
    lat_c = (0.0, 0.01, 0.1, 0.5)[sim.choose(4)]
    lat_s = (0.0, 0.01, 0.1, 0.5)[sim.choose(4)]
    link = Link(sim, latency=(lat_c, lat_s))
    link.p_split = (0.0, 0.0, 0.05, 0.3)[sim.choose(4)]     # packets arriving in two parts > one poll period apart
    plog = []
    thr = {}
    use_thresholds = sim.choose(4) == 0
    if use_thresholds:
        thr = {"REKEY_BYTES": 1 << (13 + sim.choose(3)), "REKEY_PACKETS": 1 << 20,
               "REKEY_BYTES_OVERFLOW_MAX": 1 << 22, "REKEY_PACKETS_OVERFLOW_MAX": 1 << 20}
    directed = {"on": False}
    if sim.trace_files and WATCH and sim.choose(2):
        # directed shape: a second application thread calls renegotiate_keys() exactly when the transport thread is
        # finishing an exchange (released at a seeded statement of _parse_newkeys)
        from sim import shims
        import sys as _sys
        directed.update(on=True, armed=False, target=None, ev=shims.Event(),
                        tag=sorted(set(WATCH.values()))[sim.choose(len(set(WATCH.values())))],
                        yield_after=bool(sim.choose(2)))

        def hook(tag, frame):
            if directed["armed"] and tag == directed["tag"] and frame.f_locals.get("self") is directed["target"]:
                directed["armed"] = False
                sim.probe("second_thread_released_at_" + tag)
                directed["ev"].set()
                if directed["yield_after"]:
                    sim.sleep(1e-5)
        sim.watch_lines = WATCH
        sim.line_hook = hook
        sim._tracer = sim._make_tracer()
        _sys.settrace(sim._tracer)
    p = ssh.Pair(sim, link=link, client_pk=ssh.observing_packetizer("c", plog, **thr),
                 server_pk=ssh.observing_packetizer("s", plog, **thr))
    p.plog = plog
    desc = {"latency": [lat_c, lat_s], "thresholds": use_thresholds}
    p.start(timeout=60)
    p.wait_server()
    p.auth_password()
    keepalive = (0, 0, 0.3, 2.0)[sim.choose(4)]
    if keepalive:
        (p.tc, p.ts)[sim.choose(2)].set_keepalive(keepalive)
    desc["keepalive"] = keepalive
    nchan = 1 + sim.choose(3)
    chans = []
    for i in range(nchan):
        ch = p.tc.open_session(timeout=60)
        sch = p.ts.accept(60)
        if sch is None:
            raise RuntimeError("setup: accept failed")
        ch.settimeout(LIMIT); sch.settimeout(LIMIT)
        chans.append((ch, sch))
    results = {"errors": [], "ledger": []}

    def guarded(name, fn):
        def run():
            try:
                fn()
            except Exception as e:
                results["errors"].append((name, e, sim.now))
        return run

    progs = {}
    tasks = []
    # data streams
    for i, (ch, sch) in enumerate(chans):
        n = (2000, 20000, 60000)[sim.choose(3)]
        src, dst = (ch, sch) if sim.choose(2) == 0 else (sch, ch)
        data = sim.payload.randbytes(n)
        chunk = (100, 1000, 8000)[sim.choose(3)]
        gap = (0.0, 0.01, 0.05)[sim.choose(3)]
        got = []
        results["ledger"].append((i, data, got))

        def writer(src=src, data=data, chunk=chunk, gap=gap):
            for k in range(0, len(data), chunk):
                src.sendall(data[k:k + chunk])
                if gap:
                    sim.sleep(gap)

        def reader(dst=dst, n=n, got=got):
            total = 0
            while total < n:
                x = dst.recv(32768)
                if not x:
                    break
                got.append(x)
                total += len(x)
        tasks.append(sim.spawn(guarded("writer%d" % i, writer), "writer%d" % i))
        tasks.append(sim.spawn(guarded("reader%d" % i, reader), "reader%d" % i))
    # request issuers
    cprog = [(sim.choose(7), (0.0, 0.02, 0.2)[sim.choose(3)]) for _ in range(1 + sim.choose(5))]
    sprog = [(sim.choose(4), (0.0, 0.02, 0.2)[sim.choose(3)]) for _ in range(sim.choose(4))]
    desc["client_ops"] = cprog
    desc["server_ops"] = sprog

    def client_ops():
        for op, gap in cprog:
            if gap:
                sim.sleep(gap)
            ch = chans[sim_choice(len(chans))][0]
            if op == 0:
                ch.get_pty()
            elif op == 1:
                c2 = p.tc.open_session(timeout=LIMIT)
                c2.settimeout(LIMIT)
                c2.exec_command("true")
                c2.close()
            elif op == 2:
                r = p.tc.global_request("ping@example.com", wait=True)
                if r is None and p.tc.is_active():
                    # global_request shares Transport.completion_event with renegotiate_keys, so a
                    # NEWKEYS can end its wait early; the statement promises nothing about that
                    sim.probe("global_request_returned_none_during_rekey")
            elif op == 3:
                p.tc.send_ignore(20)
            elif op == 4:
                ch.set_environment_variable("A", "b")
            elif op == 5:
                ch.resize_pty(100, 40)
            else:
                c2 = p.tc.open_session(timeout=LIMIT)
                c2.close()

    cnt = [0]

    def sim_choice(n):
        cnt[0] += 1
        return cnt[0] % n

    def server_ops():
        for op, gap in sprog:
            if gap:
                sim.sleep(gap)
            sch = chans[sim_choice(len(chans))][1]
            if op == 0:
                p.ts.global_request("hello@example.com", wait=True)     # client refuses, but must answer
            elif op == 1:
                sch.send_exit_status(3)
            elif op == 2:
                p.ts.send_ignore(10)
            else:
                p.ts.global_request("nowait@example.com", wait=False)

    def acceptor():
        # serve channels the client opens during the run
        while not stop[0]:
            c = p.ts.accept(0.5)
            if c is not None:
                extra.append(c)

    stop = [False]
    extra = []
    # a channel that is half-closed / closed from both ends around the re-exchange: EOF and CLOSE (and the window
    # adjusts for the data before them) cross the KEXINITs while a user thread sits in shutdown_write()/close()
    if sim.choose(2):
        hc = p.tc.open_session(timeout=60)
        hs = p.ts.accept(60)
        hc.settimeout(LIMIT); hs.settimeout(LIMIT)
        da, db = [(0.0, 0.04, 0.3, 1.0)[sim.choose(4)] for _ in range(2)]
        na, nb = [(0, 100, 40000)[sim.choose(3)] for _ in range(2)]
        order = sim.choose(3)
        desc["half_close"] = [da, db, na, nb, order]

        def drain(c):
            while c.recv(32768):
                pass

        def half_close_client():
            sim.sleep(da)
            if na:
                hc.sendall(b"c" * na)
            hc.shutdown_write()
            drain(hc)
            if order != 1:
                hc.close()

        def half_close_server():
            sim.sleep(db)
            if nb:
                hs.sendall(b"s" * nb)
            if order == 2:
                hs.send_exit_status(0)
            hs.shutdown_write()
            drain(hs)
            if order != 0:
                hs.close()
        tasks.append(sim.spawn(guarded("half_close_c", half_close_client), "half_close_c"))
        tasks.append(sim.spawn(guarded("half_close_s", half_close_server), "half_close_s"))
        sim.probe("half_close_channel")
    tasks.append(sim.spawn(guarded("client_ops", client_ops), "client_ops"))
    tasks.append(sim.spawn(guarded("server_ops", server_ops), "server_ops"))
    acc = sim.spawn(guarded("acceptor", acceptor), "acceptor")
    # re-exchange triggers
    who = sim.choose(3)          # 0 client, 1 server, 2 both
    nre = 1 + sim.choose(2)
    desc["rekey_by"] = ("client", "server", "both")[who]
    desc["rekeys"] = nre

    def rekeyer(t, delays):
        for d in delays:
            sim.sleep(d)
            t.renegotiate_keys()
            sim.probe("explicit_rekey")
    if not use_thresholds or sim.choose(2):
        if who in (0, 2):
            tasks.append(sim.spawn(guarded("rekey_c", lambda: rekeyer(p.tc, [(0.0, 0.05, 0.3, 1.0)[sim.choose(4)] for _ in range(nre)])), "rekey_c"))
        if who in (1, 2):
            tasks.append(sim.spawn(guarded("rekey_s", lambda: rekeyer(p.ts, [(0.0, 0.05, 0.3, 1.0)[sim.choose(4)] for _ in range(nre)])), "rekey_s"))
        if directed["on"]:
            directed["target"] = (p.tc, p.ts)[sim.choose(2)]
            desc["second_thread_at"] = [directed["tag"], "client" if directed["target"] is p.tc else "server"]

            def rekey_at_end():
                directed["armed"] = True
                if directed["ev"].wait(LIMIT / 2):
                    directed["target"].renegotiate_keys()
                    sim.probe("explicit_rekey")
            tasks.append(sim.spawn(guarded("rekey_y", rekey_at_end), "rekey_y"))
        if sim.choose(2):
            # a second, independent application thread on one side also asks for new keys now and then: its call can
            # fall into an exchange in progress, or right at its end
            t2 = (p.tc, p.ts)[sim.choose(2)]
            d2 = [(0.0, 0.001, 0.01, 0.05, 0.3)[sim.choose(5)] for _ in range(1 + sim.choose(3))]
            desc["second_rekeyer"] = ["client" if t2 is p.tc else "server", d2]
            tasks.append(sim.spawn(guarded("rekey_x", lambda: rekeyer(t2, d2)), "rekey_x"))
    end = sim.now + LIMIT
    while any(t.state != core.DONE for t in tasks) and sim.now < end:
        sim.sleep(0.25)
    stop[0] = True
    stuck = [t for t in tasks if t.state != core.DONE]
    check_wire(sim, plog, desc)
    if stuck:
        raise Violation(("C11", "task-stuck") + tuple(sorted(set("%s@%s" % (t.name.rstrip("0123456789"), core.where_parked(t)) for t in stuck))),
                        "after %.0f virtual seconds still blocked: %s" % (LIMIT, ["%s@%s" % (t.name, core.where_parked(t)) for t in stuck]), desc)
    for name, e, when in results["errors"]:
        raise Violation(("C11", "operation-failed", name.rstrip("0123456789"), type(e).__name__, short(e)),
                        "%s failed at t=%.2f with %r; client exc=%r server exc=%r"
                        % (name, when, e, p.tc.get_exception(), p.ts.get_exception()), desc)
    if not (p.tc.is_active() and p.ts.is_active()):
        raise Violation(("C11", "session-dropped", type(p.tc.get_exception()).__name__, type(p.ts.get_exception()).__name__),
                        "session did not survive the re-exchange: client exc=%r server exc=%r"
                        % (p.tc.get_exception(), p.ts.get_exception()), desc)
    for i, data, got in results["ledger"]:
        if b"".join(got) != data:
            raise Violation(("C11", "data-lost-or-corrupted"), "channel %d: received %d of %d bytes" % (i, sum(map(len, got)), len(data)), desc)
    ssh.quiesce(sim, [link], (), settle=0.25, limit=30)
    nk = {"c": 0, "s": 0}
    ki = {"c": 0, "s": 0}
    for e in plog:
        if e[3] == "tx" and e[4] == 21:
            nk[e[2]] += 1
        if e[3] == "tx" and e[4] == 20:
            ki[e[2]] += 1
    if nk["c"] != ki["c"] or nk["s"] != ki["s"] or nk["c"] != nk["s"]:
        raise Violation(("C11", "exchange-not-completed"), "KEXINIT/NEWKEYS counts: %r / %r" % (ki, nk), desc)
    if nk["c"] < 2:
        sim.probe("no_rekey_happened")
    p.close()
    return {"sample": desc, "nontrivial": True, "counts": ["rekeys:%d" % (nk["c"] - 1)]}


def short(e):
    s = str(e)
    for k in ("Key-exchange timed out", "Timeout", "closed", "EOF", "not open"):
        if k in s:
            return k
    return s[:30]


NAMES = {50: "USERAUTH_REQUEST", 51: "USERAUTH_FAILURE", 52: "USERAUTH_SUCCESS", 53: "USERAUTH_BANNER", 60: "USERAUTH_60",
         61: "USERAUTH_61", 80: "GLOBAL_REQUEST", 81: "REQUEST_SUCCESS", 82: "REQUEST_FAILURE", 90: "CHANNEL_OPEN", 91: "OPEN_SUCCESS",
         92: "OPEN_FAILURE", 93: "WINDOW_ADJUST", 94: "DATA", 95: "EXTENDED_DATA", 96: "EOF", 97: "CLOSE",
         98: "CHANNEL_REQUEST", 99: "CHANNEL_SUCCESS", 100: "CHANNEL_FAILURE"}


def check_wire(sim, plog, desc):
    in_kex = {"c": False, "s": False}
    peer_conn_in_kex = 0
    first = {"c": True, "s": True}
    for e in sorted(plog):
        seq, now, side, kind, ptype, payload = e
        if kind == "tx":
            if ptype == 20:
                in_kex[side] = True
            elif ptype == 21:
                in_kex[side] = False
            elif in_kex[side]:
                if ptype >= 50:
                    raise Violation(("C11", "connection-message-inside-own-kex", "client" if side == "c" else "server",
                                     NAMES.get(ptype, str(ptype))),
                                    "%s emitted %s (type %d) between its KEXINIT and its NEWKEYS (t=%.3f)"
                                    % ("client" if side == "c" else "server", NAMES.get(ptype, "?"), ptype, now), desc)
                if ptype in (5, 6):
                    sim.probe("service_msg_inside_kex")
        else:
            if in_kex[side] and ptype >= 80:
                peer_conn_in_kex += 1
    if peer_conn_in_kex:
        sim.probe("peer_conn_msg_received_while_in_kex", peer_conn_in_kex)
