"""C14 -- a server grants authentication only with its own approval and valid proof.

LINK engine, byzantine raw client, unmodified server with a scripted, logging
application.  Requests of every method in arbitrary order: none, password (and
change-request), publickey probe, publickey with a valid signature, with a
signature captured in ANOTHER simulated session, with exactly one signed field
altered, keyboard-interactive incl. unsolicited responses, gssapi-with-mic and
gssapi-keyex against a stub GSS context with scripted results.
Oracle: USERAUTH_SUCCESS on the wire / is_authenticated() imply that an
application callback for that user and method returned SUCCESSFUL since the
request arrived, and for publickey that the request carried a signature valid
for THIS session; a probe is never answered with success."""
import paramiko.auth_handler as ah_mod
from paramiko.common import AUTH_SUCCESSFUL, AUTH_FAILED

from sim import ssh, rawclient, core
from sim.core import Violation
from sim.rawclient import RawSession, RecordingServer, StubGSS

PROPERTY = "C14"
LEVEL = "exploration"
BUDGET = {"quick": {"runs": 1800, "wall": 50}, "thorough": {"runs": 60000, "wall": 560}}
RULE = ("Each run: 1-8 requests for one user drawn from all methods and alterations (altered field in {session id, "
        "user, service, algorithm, key, signature bytes}, cross-session replay), callback verdicts from per-run "
        "weights, stub GSS results scripted; key type of the client key walks RSA/ECDSA/Ed25519 with the seed index.")
COMPONENTS = {"real": ["server Transport + AuthHandler + key classes unmodified", "client: real Transport emitting hand-built messages"],
              "simulated": ["socket", "clock", "scheduling", "entropy"], "stubbed": ["GSS-API context (python-gssapi is not installed)"]}
ASSUMPTIONS = ["validity of a publickey signature is known by construction (the harness builds it)"]
KEYS = ("rsa1", "ecdsa256_1", "ecdsa384_1", "ecdsa521_1", "ed25519_1")
ALTER = (None, None, "session", "user", "service", "algo", "key", "sigbytes", "sig-short", "sig-long", "sig-empty", "sig-negative",
         "sig-relabel", "sig-junk-relabel")
METHOD_OF_CB = {"keyboard-interactive-response": "keyboard-interactive"}


def sim_kw(seed):
    return {"max_steps": 2_000_000, "max_time": 3600.0}


def scenario(sim):
    sim.p_switch = (0.02, 0.2)[sim.choose(2)]
    key = ssh.key(KEYS[sim.seed % len(KEYS)])
    weights = ((2, 1, 3), (1, 0, 0), (0, 0, 1), (1, 1, 1))[sim.choose(4)]
    use_gss = sim.choose(3) == 0
    stub = StubGSS(sim, mic_ok=bool(sim.choose(3)), ctx_ok=bool(sim.choose(4)))
    saved = ah_mod.GSSAuth
    ah_mod.GSSAuth = stub
    try:
        foreign = None
        if sim.choose(4) == 0:
            # capture a perfectly valid signature in another session (same user, key, service)
            a = RawSession(sim, server=RecordingServer(sim, weights=(0, 0, 1)))
            a.service_request(); a.settle(5)
            foreign = a.auth_pk("alice", key)["sig"]
            a.settle(5); a.close()
            sim.probe("foreign_signature_captured")
        server = RecordingServer(sim, weights=weights, gss=use_gss, interactive_rounds=1 + sim.choose(2))
        s = RawSession(sim, server=server, latency=(0.0, 0.01)[sim.choose(2)])
        if use_gss:
            s.ts.kexgss_ctxt = stub
            s.ts.gss_kex_used = True
        s.service_request()
        s.settle(5)
        ops = []
        for i in range(1 + sim.choose(8)):
            m = sim.choose(10 if use_gss else 8)
            if m == 0:
                s.auth_none("alice"); ops.append("none")
            elif m == 1:
                s.auth_password("alice", "pw%d" % i, change=(sim.choose(5) == 0)); ops.append("password")
            elif m == 2:
                s.auth_pk_probe("alice", key); ops.append("pk-probe")
            elif m in (3, 4):
                alt = ALTER[sim.choose(len(ALTER))]
                s.auth_pk("alice", key, alter=alt); ops.append("pk(alter=%s)" % alt)
            elif m == 5:
                if foreign is not None:
                    s.auth_pk("alice", key, foreign_sig=foreign); ops.append("pk(replayed from other session)")
                else:
                    s.auth_pk("alice", key, alter="session"); ops.append("pk(alter=session)")
            elif m == 6:
                s.auth_kbdint("alice"); ops.append("kbdint")
                s.settle(5)
                if sim.choose(4) == 0:
                    # another user's request slips in while alice's query is outstanding
                    s.auth_none("root"); ops.append("none(root)")
                    s.settle(5)
                for _ in range(sim.choose(3)):
                    s.info_response(("x",)); ops.append("info-response")
                    s.settle(5)
            elif m == 7:
                s.info_response(("unsolicited",)); ops.append("info-response(unsolicited)")
            elif m == 8:
                s.auth_gss_mic_start("alice"); ops.append("gss-mic")
                s.settle(5)
                if sim.choose(4):
                    s.gss_token(); s.settle(5)
                s.gss_mic(); ops.append("gss-mic-token")
            else:
                s.auth_gss_keyex("alice"); ops.append("gss-keyex")
            s.settle(5)
        s.settle(10)
        desc = {"key": key.get_name(), "weights": weights, "gss": use_gss, "stub_mic_ok": stub.mic_ok, "ops": ops}
        check(sim, s, desc)
        s.close()
    finally:
        ah_mod.GSSAuth = saved
    return {"sample": desc, "nontrivial": True, "counts": [o.split("(")[0] for o in ops]}


def check(sim, s, desc):
    sent = [d for d in s.sent if d["sent"]]
    req_idx = -1
    cur = None
    approvals = []          # callbacks since the current request / response arrived
    kbd_user = None
    success_at = None
    for seq, kind, ptype, data in s.server_events():
        if kind == "rx" and ptype == 50:
            req_idx += 1
            cur = sent[req_idx] if req_idx < len(sent) else None
            approvals = []
            if cur and cur["method"] == "keyboard-interactive":
                kbd_user = cur["user"]
        elif kind == "rx" and ptype in (61, 66):
            approvals = []          # a continuation message of the current method
            gss_flow = bool(cur and cur["method"] == "gssapi-with-mic" and not cur.get("gss_done"))
            if ptype == 66 and gss_flow:
                cur = dict(cur, gss_done=True)      # the MIC ends the GSS exchange (the result follows)
            if ptype == 61 and not gss_flow:
                # an INFO_RESPONSE (solicited or not) is a keyboard-interactive message: the server
                # hands it to the application's interactive-response check, whose verdict counts
                cur = {"method": "keyboard-interactive", "user": kbd_user if kbd_user is not None else (cur["user"] if cur else None),
                       "via_response": True}
        elif kind == "cb" and data[2] == "auth":
            approvals.append(data)
        elif kind == "tx" and ptype == 52:
            success_at = seq
            ok = [c for c in approvals if c[6] == AUTH_SUCCESSFUL]
            method = cur["method"] if cur else None
            if cur is None:
                raise Violation(("C14", "success-without-request"), "USERAUTH_SUCCESS before any request", desc)
            if not ok:
                last = approvals[-1] if approvals else None
                raise Violation(("C14", "success-without-application-approval", method),
                                "USERAUTH_SUCCESS for method %s although no application callback returned SUCCESSFUL "
                                "(callbacks since the request: %s)"
                                % (method, [(c[3], rawclient.RESULT_NAMES.get(c[6], c[6])) for c in approvals]), desc)
            c = ok[-1]
            cb_method = METHOD_OF_CB.get(c[3], c[3])
            if cb_method != method:
                raise Violation(("C14", "success-for-other-method", method, cb_method),
                                "approval was for %s but the request in progress is %s" % (cb_method, method), desc)
            if c[4] is not None and c[4] != cur["user"]:
                raise Violation(("C14", "success-for-other-user"), "approval was for %r, request names %r" % (c[4], cur["user"]), desc)
            if method == "publickey":
                if cur.get("probe"):
                    raise Violation(("C14", "probe-authenticated"), "a publickey probe without signature was answered with SUCCESS", desc)
                if not cur.get("valid_sig"):
                    why = "replayed-from-other-session" if cur.get("foreign") else "altered-" + str(cur.get("alter"))
                    raise Violation(("C14", "invalid-signature-accepted", why),
                                    "publickey request whose signature is not valid for this session (%s) was authenticated" % why, desc)
            if method in ("gssapi-with-mic", "gssapi-keyex") and not desc["stub_mic_ok"]:
                raise Violation(("C14", "gss-mic-failure-ignored", method), "GSS MIC check failed but the client was authenticated", desc)
            # the identity the server now reports must be the one the approved exchange was started for
            who = s.ts.get_username()
            started_for = cur["user"] if not cur.get("via_response") else cur.get("user")
            if who is not None and started_for is not None and who != started_for:
                raise Violation(("C14", "authenticated-as-other-user", method),
                                "application approved %s for %r but the server reports %r as authenticated" % (method, started_for, who), desc)
            sim.probe("success_justified_" + method)
            break       # the client is authenticated from here on; later messages are not auth decisions
    if s.ts.is_authenticated() and success_at is None:
        raise Violation(("C14", "authenticated-without-success-message"), "is_authenticated() is true but no USERAUTH_SUCCESS was sent", desc)
    for d in sent:
        if d["method"] == "publickey" and not d.get("valid_sig") and not d.get("probe"):
            sim.probe("invalid_signatures_sent")
