"""C19 -- channel senders never exceed the peer's window or maximum packet size;
receivers never grant more window than their application consumed.

CHAN engine: several writer tasks (stdout and stderr) and reader tasks per
channel on both sides, window and max-packet sizes from boundary classes,
latency so that adjusts arrive late; in a third of the runs the channel
parameters seen by the victim come from a byzantine peer (a real Transport
whose CHANNEL_OPEN / OPEN_CONFIRMATION advertises raw values 0..2^32-1).
Oracle: ledger per channel and direction over the wire-order log, evaluated at
every data message, plus an API recorder for consumed bytes."""
import socket
import struct

from sim import ssh, core
from sim.chanwork import Workload, ChanSpec, ApiLog
from sim.core import Violation
from sim.wiretap import Reader

PROPERTY = "C19"
LEVEL = "exploration"
BUDGET = {"quick": {"runs": 900, "wall": 55}, "thorough": {"runs": 40000, "wall": 570}}
RULE = ("Each run: 1-3 channels; requested window from {32768, 32769, 40000, 65536, 2^21, 2^31, 2^32-1} and max packet "
        "from {4096, 4097, 8192, 32768, 65536, 2^32-1} (byzantine runs: raw advertised window 0..2^32-1 and max packet "
        "0..2^32-1), 1-3 writer tasks per direction mixing send/send_stderr/sendall with chunks up to 100000 bytes, 1-2 "
        "reader tasks per side with random read sizes, latency 0-100 ms.")
COMPONENTS = {"real": ["both Transports/Channels unmodified (in byzantine runs the advertising side is a real Transport whose "
                       "CHANNEL_OPEN / OPEN_CONFIRMATION numbers are rewritten before encryption)"],
              "simulated": ["socket", "clock", "scheduling", "entropy"]}
ASSUMPTIONS = ["a receiver's grants are compared with the bytes returned by completed recv/recv_stderr calls plus the sizes asked by calls in progress"]
WINDOWS = (32768, 32769, 40000, 65536, 1 << 21, 1 << 31, (1 << 32) - 1)
PACKETS = (4096, 4097, 8192, 32768, 65536, (1 << 32) - 1)
RAW_WINDOWS = (0, 1, 100, 4095, 32768, 100000, 1 << 31, (1 << 32) - 1)
RAW_PACKETS = (0, 1, 100, 4095, 4096, 5000, 32768, 1 << 20, (1 << 32) - 1)


def sim_kw(seed):
    kw = {"max_steps": 6_000_000, "max_time": 7200.0}
    if seed % 3 == 0:
        # bytecode-level pre-emption inside channel.py (right before stores to shared state such as the window counters)
        import paramiko.channel as ch_mod
        kw.update(trace_files={ch_mod.__file__}, trace_opcodes=True)
    return kw


def scenario(sim):
    sim.p_switch = (0.02, 0.1, 0.3)[sim.choose(3)]
    if sim.trace_opcodes:
        sim.p_preempt_store = (0.002, 0.01, 0.05)[sim.choose(3)]
        sim.max_preempt = (2, 4, 8)[sim.choose(3)]
    lat = (0.0, 0.005, 0.1)[sim.choose(3)]
    byz = sim.choose(3) == 0
    raw = {}
    pair_kw = {}
    plog = []
    if byz:
        adv = ("c", "s")[sim.choose(2)]
        raw_w = RAW_WINDOWS[sim.choose(len(RAW_WINDOWS))]
        raw_p = RAW_PACKETS[sim.choose(len(RAW_PACKETS))]

        def mutate_out(pk, payload):
            t = payload[0]
            if t == 90 and adv == "c":
                r = Reader(payload); r.byte()
                kind = r.string(); sender = r.u32()
                sim.fault("raw_channel_parameters")
                return [bytes([90]) + struct.pack(">I", len(kind)) + kind + struct.pack(">III", sender, raw_w, raw_p) + payload[r.i + 8:]]
            if t == 91 and adv == "s":
                r = Reader(payload); r.byte()
                rec = r.u32(); sender = r.u32()
                sim.fault("raw_channel_parameters")
                return [bytes([91]) + struct.pack(">IIII", rec, sender, raw_w, raw_p) + payload[17:]]
            return [payload]
        pair_kw["client_pk" if adv == "c" else "server_pk"] = ssh.byzantine_packetizer(adv, plog, mutate_out=mutate_out)
        raw = {"adversary": adv, "window": raw_w, "max_packet": raw_p}
    pair_kw["plog"] = plog
    ckw = {"default_window_size": WINDOWS[sim.choose(len(WINDOWS))], "default_max_packet_size": PACKETS[sim.choose(len(PACKETS))]}
    skw = {"default_window_size": WINDOWS[sim.choose(len(WINDOWS))], "default_max_packet_size": PACKETS[sim.choose(len(PACKETS))]}
    w = Workload(sim, latency=lat, client_kw=ckw, server_kw=skw, pair_kw=pair_kw, timeout=(8.0 if byz else 30.0))
    w.plog = plog
    w.connect()
    nchan = 1 + sim.choose(3)
    desc = {"client": ckw, "server": skw, "latency": lat, "byzantine": raw, "channels": []}
    consumed = {}     # (side, chan index) -> list of (seq_invoke, seq_return, asked, got)
    for i in range(nchan):
        sp = ChanSpec()
        if sim.choose(2):
            sp.window = WINDOWS[sim.choose(len(WINDOWS))]
            sp.max_packet = PACKETS[sim.choose(len(PACKETS))]
        ch, sch = w.open(sp)
        desc["channels"].append({"window": sp.window, "max_packet": sp.max_packet})
        for side, chan, peer in (("c", ch, sch), ("s", sch, ch)):
            total = (0, 3000, 50000, 200000)[sim.choose(4)]
            nw = 1 + sim.choose(3)
            remaining = [total]

            def writer(chan=chan, side=side, remaining=remaining):
                while remaining[0] > 0:
                    n = min(remaining[0], (1, 100, 5000, 40000, 100000)[sim.choose(5)])
                    remaining[0] -= n
                    data = b"d" * n
                    if sim.choose(5) == 0:
                        # text (the API accepts str and sends its UTF-8 form): n bytes as 2- or 3-byte characters
                        ch_ = ("\xa7", "\u20ac")[sim.choose(2)]
                        w_ = len(ch_.encode())
                        data = ch_ * (n // w_) + "d" * (n % w_)
                        sim.probe("text_payload")
                    op = sim.choose(4)
                    if op == 0:
                        chan.sendall(data)
                    elif op == 1:
                        chan.sendall_stderr(data)
                    else:
                        f = chan.send if op == 2 else chan.send_stderr
                        while data:
                            k = f(data)     # documented: the number of BYTES sent
                            if k == 0:
                                return
                            if isinstance(data, str):
                                data = data.encode()
                            data = data[k:]

            got = [0]
            clog = consumed.setdefault((("s" if side == "c" else "c"), i), [])

            def reader(peer=peer, total=total, got=got, clog=clog, stderr=False):
                peer_timeout = peer.gettimeout()
                while got[0] < total:
                    n = (1, 64, 3000, 70000)[sim.choose(4)]
                    s0 = sim.record("api", "recv-invoke", n)
                    entry = [s0, None, n, 0]
                    clog.append(entry)
                    try:
                        x = (peer.recv_stderr if stderr else peer.recv)(n)
                    except socket.timeout:
                        entry[1] = sim.record("api", "recv-timeout")
                        return
                    entry[1] = sim.record("api", "recv-return", len(x))
                    entry[3] = len(x)
                    if not x:
                        return
                    got[0] += len(x)

            for k in range(nw):
                w.spawn("w-%s%d-%d" % (side, i, k), writer)
            # one reader per stream on the receiving side
            w.spawn("r-%s%d-out" % (side, i), lambda r=reader: r(stderr=False))
            w.spawn("r-%s%d-err" % (side, i), lambda r=reader: r(stderr=True))
    stuck = w.wait(400.0 if not byz else 60.0)
    # readers of a stream that got less than `total` (the split between streams is random) time out: fine.
    check_ledgers(sim, w, plog, consumed, desc, byz, raw)
    if not byz:
        for name, e, when in w.errors:
            if name.startswith("w-") and not isinstance(e, socket.timeout):
                raise Violation(("C19", "honest-writer-failed", type(e).__name__), "%s failed: %r" % (name, e), desc)
    w.p.close()
    return {"sample": desc, "nontrivial": True, "counts": ["byzantine" if byz else "honest"]}


def check_ledgers(sim, w, plog, consumed, desc, byz, raw):
    events = sorted(plog)
    opens = {}      # (side, id) -> (window, maxpacket) advertised by that side for ITS receive direction
    peer_of = {}    # (side, local id) -> peer's local id
    adv = {}        # (receiver side, receiver local id) -> [window, maxpacket]
    for seq, now, side, kind, ptype, payload in events:
        if kind != "tx":
            continue
        r = Reader(payload); r.byte()
        if ptype == 90:
            r.string(); sender = r.u32(); win = r.u32(); mp = r.u32()
            adv[(side, sender)] = [win, mp]
        elif ptype == 91:
            rec = r.u32(); sender = r.u32(); win = r.u32(); mp = r.u32()
            other = "s" if side == "c" else "c"
            adv[(side, sender)] = [win, mp]
            peer_of[(side, sender)] = rec
            peer_of[(other, rec)] = sender
    sent = {}       # (sender side, receiver's local id) -> bytes sent so far
    credit = {}     # (sender side, sender's local id) -> adjust bytes RECEIVED so far
    granted = {}    # (receiver side, receiver's local id) -> adjust bytes SENT so far
    order = sorted(set(consumed))
    for seq, now, side, kind, ptype, payload in events:
        other = "s" if side == "c" else "c"
        if kind == "tx" and ptype in (94, 95):
            r = Reader(payload); r.byte()
            rid = r.u32()
            if ptype == 95:
                r.u32()
            n = r.u32()
            if (other, rid) not in adv or (other, rid) not in peer_of:
                continue
            w0, mp = adv[(other, rid)]
            my_id = peer_of[(other, rid)]
            key = (side, rid)
            sent[key] = sent.get(key, 0) + n
            allowed = w0 + credit.get((side, my_id), 0)
            if sent[key] > allowed:
                raise Violation(("C19", "window-exceeded", "byzantine-parameters" if byz else "honest"),
                                "%s sent %d data bytes on a channel whose peer granted %d initially + %d in adjusts received so far"
                                % (side, sent[key], w0, credit.get((side, my_id), 0)), desc)
            if mp >= 4096 and n > mp:
                raise Violation(("C19", "max-packet-exceeded", "byzantine-parameters" if byz else "honest"),
                                "%s sent a %d-byte data message, peer's maximum packet size is %d" % (side, n, mp), desc)
            sim.probe("data_messages_checked")
            if allowed - sent[key] < 4096:
                sim.probe("sender_near_window_limit")
        elif kind == "rx" and ptype == 93:
            r = Reader(payload); r.byte()
            cid = r.u32(); n = r.u32()
            credit[(side, cid)] = credit.get((side, cid), 0) + n
        elif kind == "tx" and ptype == 93:
            r = Reader(payload); r.byte()
            rid = r.u32(); n = r.u32()       # rid: the data sender's local id; we (side) are the receiver
            if (other, rid) not in peer_of:
                continue
            my_id = peer_of[(other, rid)]
            gkey = (side, my_id)
            granted[gkey] = granted.get(gkey, 0) + n
            # bytes this side's application has obtained on that channel up to now (+ calls in progress)
            total = 0
            idx = channel_index(w, side, my_id)
            for s0, s1, asked, got in consumed.get((side, idx), ()):
                if s1 is not None and s1 < seq:
                    total += got
                elif s0 < seq:
                    total += asked       # call in progress when the adjust went out
            if byz and raw.get("adversary") == side:
                continue                 # the adversary's own grants are not judged
            if granted[gkey] > total:
                raise Violation(("C19", "granted-more-than-consumed"),
                                "%s granted %d bytes of window on a channel whose application had consumed at most %d"
                                % (side, granted[gkey], total), desc)
            sim.probe("adjusts_checked")


def channel_index(w, side, local_id):
    for i, (ch, sch, sp) in enumerate(w.chans):
        c = ch if side == "c" else sch
        if c.get_id() == local_id:
            return i
    return -1
