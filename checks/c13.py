"""C13 -- blocking calls return once the connection ends.

LINK/CHAN engine.  A victim transport (client or server role) is connected to a
real peer that can be made silent (it swallows everything, so the victim's
call blocks waiting for an answer); then the connection is lost in one of
several ways, before, racing with, or after the call.
Oracle: the victim reports inactive within 2 virtual seconds of the loss being
deliverable; every blocked call returns or raises within T_CALL of that, every
later call within T_CALL of being made, within a bounded number of scheduler
steps.  What the call returns or raises is irrelevant."""
import socket

import paramiko
import paramiko.channel as ch_mod
import paramiko.auth_handler as ah_mod
from paramiko import Transport
from paramiko.transport import ServiceRequestingTransport
from paramiko.ssh_exception import SSHException

from sim import ssh, core
from sim.core import Violation
from sim.net import Link

PROPERTY = "C13"
LEVEL = "exploration"
BUDGET = {"quick": {"runs": 5600, "wall": 58}, "thorough": {"runs": 60000, "wall": 570}}
T_CALL = 5.0
T_INACTIVE = 2.0
STEP_CAP = 200000
CLIENT_APIS = ("recv", "recv_stderr", "sendall", "sendall_stderr", "send", "exec_command", "invoke_shell", "invoke_subsystem",
               "get_pty", "recv_exit_status", "open_session", "open_session_burst", "global_request", "request_port_forward", "renegotiate_keys",
               "auth_password", "auth_publickey", "auth_interactive", "auth_none",
               "srt_auth_password", "srt_auth_publickey", "srt_auth_none", "start_client")
SERVER_APIS = ("accept_none", "accept_timeout", "server_recv", "server_sendall", "start_server", "server_renegotiate")
LOSSES = ("peer-close", "link-eof", "link-reset", "link-error-one-arg", "local-close", "garbage-then-eof", "peer-disconnect",
          "protocol-error")
PHASES = ("blocked-first", "racing", "after")
PROXY_APIS = ("recv", "exec_command", "open_session", "global_request", "sendall", "auth_password", "recv_exit_status")
# proxy-output-ends: the command closes its output but does not exit (a relay that waits for its input to end)
PROXY_CASES = [("proxy:" + a, l, ph) for a in PROXY_APIS for l in ("proxy-exit", "proxy-output-ends")
               for ph in ("blocked-first", "racing", "after")]
CASES = PROXY_CASES + [(a, l, ph) for a in CLIENT_APIS + SERVER_APIS for l in LOSSES for ph in PHASES
         # start_* on a transport that is not running yet: closing it beforehand is a no-op, so only
         # 'the call is already blocked when the loss happens' is meaningful there
         if not (a in ("start_client", "start_server") and (ph != "blocked-first"))]
RULE = ("Enumerated by seed index: API (%d) x loss kind %r x phase %r (%d cases); per run channel timeout from {None, 0, 60, "
        "3600}, latency 0-50 ms, schedule; line-level pre-emption in channel.py and auth_handler.py in a third of the runs, "
        "inside Transport.open_channel (with stalls of up to 0.3 virtual s between statements) in half of the open-session "
        "runs; after the call a second wave of 2-3 sending calls on the dead transport."
        % (len(CLIENT_APIS + SERVER_APIS), LOSSES, PHASES, len(CASES)))
COMPONENTS = {"real": ["victim Transport / ServiceRequestingTransport / Channel / AuthHandler unmodified",
                       "peer: real Transport whose packetizer can be told to swallow incoming messages"],
              "simulated": ["socket (EOF, reset, garbage injection)", "clock", "scheduling", "entropy"]}
ASSUMPTIONS = ["T_CALL = 5 and T_INACTIVE = 2 virtual seconds are progress bounds (>= 10 poll periods, below every API timeout used)",
               "ProxyCommand process exit is covered separately (sub-scenario 'proxy')"]
TRACE = {ch_mod.__file__, ah_mod.__file__}


def sim_kw(seed):
    kw = {"max_steps": 1_500_000, "max_time": 7200.0}
    if seed % 3 == 0:
        kw["trace_files"] = TRACE
    api = CASES[seed % len(CASES)][0]
    if "open_session" in api and (seed // len(CASES)) % 2 == 0:
        # statement-level pre-emption inside the functions that register a new channel: the loss of the connection
        # can then be handled by the transport thread between any two of their statements
        import paramiko.transport as tr_mod
        kw["trace_files"] = {tr_mod.__file__}
        kw["trace_funcs"] = {"open_channel", "_next_channel", "open_session"}
    return kw


class FakeStdout:
    def __init__(self, sock):
        self.sock = sock

    def fileno(self):
        return self


class FakeStdin:
    def __init__(self, sock):
        self.sock = sock

    def write(self, content):
        try:
            self.sock.sendall(content)
        except OSError as e:
            raise IOError(32, "Broken pipe")
        return len(content)


class FakeProcess:
    """What ProxyCommand uses of subprocess.Popen, backed by one end of a simulated link: the
    'process' relays bytes to the real server transport at the other end and can exit."""
    pid = 0x7FFFFFF0      # cannot exist: a stray real os.kill() on it is harmless

    def __init__(self, sock):
        self.sock = sock
        self.stdin = FakeStdin(sock)
        self.stdout = FakeStdout(sock)
        self.stderr = None
        self.returncode = None

    def poll(self):
        return self.returncode

    def wait(self, timeout=None):
        return self.returncode

    def kill(self):
        if self.returncode is None:
            self.returncode = -9
            self.sock.close()

    terminate = kill


def proxy_modules(sim, sock, box):
    import types
    import paramiko.proxy as px

    sub = types.ModuleType("fake_subprocess")
    sub.PIPE = -1

    def Popen(cmd, **kw):
        box["proc"] = FakeProcess(sock)
        return box["proc"]
    sub.Popen = Popen

    def fake_select(r, w, x, timeout=None):
        out = []
        for f in r:
            sk = f.sock
            if sk.rxbuf or sk.rx_eof or sk.rx_reset or sk.closed:
                out.append(f)
        if out or (timeout is not None and timeout <= 0):
            sim.step()
            return out, [], []
        sk = r[0].sock
        sim.block(sk.rxq, timeout)
        return ([f for f in r if f.sock.rxbuf or f.sock.rx_eof or f.sock.rx_reset or f.sock.closed], [], [])

    def fake_read(fd, n):
        sk = fd.sock
        sim.step()
        if sk.rxbuf:
            out = bytes(sk.rxbuf[:n]); del sk.rxbuf[:n]
            return out
        return b""        # EOF: the process is gone

    def fake_kill(pid, sig):
        p = box.get("proc")
        if p is not None and p.returncode is None:
            p.returncode = -15
            p.sock.close()
    from sim import shims
    fos = shims.make_os(read=fake_read, kill=fake_kill)
    saved = (px.subprocess, px.select, px.os)
    px.subprocess, px.select, px.os = sub, fake_select, fos
    return saved


def _quiet(fn):
    try:
        fn()
    except Exception:
        pass


def on_hang(sim, exc):
    """Step budget exhausted: some task is looping.  Classify by the busiest non-driver task."""
    from sim.core import SimBudget
    if not isinstance(exc, SimBudget):
        return None
    busy = sorted((t for t in sim.tasks if t is not sim.driver and t.state != core.DONE), key=lambda t: -t.steps)
    if not busy or busy[0].steps < STEP_CAP:
        return None
    t = busy[0]
    frames = core.stack_of(t, 12)
    pf = [f for f in frames if not f.startswith(("threading.py", "core.py", "shims.py", "net.py", "c13.py"))]
    where = (pf[0].split(":")[0] + ":" + pf[0].split(":")[-1]) if pf else core.where_parked(t)
    kind = "transport-thread-spins" if t.name.startswith("T-") else "call-spins"
    return Violation(("C13", kind, where), "%s burned %d scheduler steps in %s after the connection ended (%s)"
                     % (t.name, t.steps, where, " < ".join(frames[:5])))


class Silent:
    def __init__(self):
        self.on = False


def scenario(sim):
    sim.p_switch = (0.02, 0.1, 0.3)[sim.choose(3)]
    if sim.trace_files:
        sim.p_preempt = (0.005, 0.05)[sim.choose(2)]
        sim.max_preempt = (6, 60)[sim.choose(2)]
        if sim.trace_funcs:
            sim.p_preempt = (0.1, 0.4)[sim.choose(2)]      # only a handful of statements are traced
            sim.p_preempt_stall = (0.0, 0.5)[sim.choose(2)]
            # injected stalls must stay well inside the liveness bound: at most 6 of at most 0.3 virtual seconds
            sim.max_preempt = 6
            sim.stall_choices = (0.001, 0.05, 0.3)
    api, loss, phase = CASES[sim.seed % len(CASES)]
    via_proxy = api.startswith("proxy:")
    if via_proxy:
        api = api[6:]
    victim_role = "server" if api in SERVER_APIS else "client"
    lat = (0.0, 0.005, 0.05)[sim.choose(3)]
    ctimeout = (None, None, 60.0, 3600.0, 0.0)[sim.choose(5)]
    if phase != "after" and ctimeout == 0.0:
        ctimeout = None
    desc = {"api": api, "loss": loss, "phase": phase, "channel_timeout": ctimeout, "latency": lat, "victim": victim_role}
    link = Link(sim, latency=(lat, lat))
    silent = Silent()
    plog = []

    def filter_in(pk, ptype, payload):
        return silent.on and ptype not in (1,)

    peer_side = "s" if victim_role == "client" else "c"
    kw = {"server_pk" if peer_side == "s" else "client_pk": ssh.byzantine_packetizer(peer_side, plog, filter_in=filter_in)}
    ccls = ServiceRequestingTransport if api.startswith("srt_") else Transport
    ukey = ssh.key("ed25519_2")
    server = ssh.ScriptedServer(sim, allowed_keys=[ukey])
    server.get_allowed_auths = lambda u: "password,publickey,keyboard-interactive,none"
    saved_px = None
    box = {}
    if via_proxy:
        import paramiko.proxy as px
        saved_px = proxy_modules(sim, link.a, box)
        sim.cleanup.append(lambda: (setattr(px, "subprocess", saved_px[0]), setattr(px, "select", saved_px[1]), setattr(px, "os", saved_px[2])))
        pc = px.ProxyCommand("ssh -W host:22 gateway")

        class ProxiedClient(Transport):
            def __init__(self, sock, **k2):
                Transport.__init__(self, pc, **k2)
        ccls = ProxiedClient
    p = ssh.Pair(sim, link=link, plog=plog, client_cls=ccls, server=server, **kw)
    victim, peer = (p.tc, p.ts) if victim_role == "client" else (p.ts, p.tc)
    # ---- bring the session to the state the API needs
    raw_start = api in ("start_client", "start_server")
    ch = sch = None
    if not raw_start:
        p.start(timeout=60)
        p.wait_server()
        if not api.startswith(("auth_", "srt_auth_")):
            p.auth_password()
            if api not in ("open_session", "global_request", "request_port_forward", "renegotiate_keys", "accept_none",
                           "accept_timeout", "server_renegotiate"):
                ch = p.tc.open_session(timeout=30)
                sch = p.ts.accept(30)
                ch.settimeout(ctimeout); sch.settimeout(ctimeout)
                if api in ("sendall", "sendall_stderr", "send"):
                    fill(ch)
                elif api == "server_sendall":
                    fill(sch)
        silent.on = True
    else:
        # the peer never says anything: start_* waits for the banner / the exchange
        pass

    def call():
        if api == "recv":
            ch.recv(100)
        elif api == "recv_stderr":
            ch.recv_stderr(100)
        elif api == "sendall":
            ch.sendall(b"x" * 50000)
        elif api == "sendall_stderr":
            ch.sendall_stderr(b"x" * 50000)
        elif api == "send":
            ch.send(b"x" * 50000)
        elif api == "exec_command":
            ch.exec_command("id")
        elif api == "invoke_shell":
            ch.invoke_shell()
        elif api == "invoke_subsystem":
            ch.invoke_subsystem("sftp")
        elif api == "get_pty":
            ch.get_pty()
        elif api == "recv_exit_status":
            ch.recv_exit_status()
        elif api == "open_session":
            p.tc.open_session()
        elif api == "open_session_burst":
            # several callers opening channels at once: each of them has to come back
            subs = [sim.spawn(lambda: _quiet(p.tc.open_session), "opener%d" % i) for i in range(3)]
            for t_ in subs:
                while t_.state != core.DONE:
                    sim.sleep(0.1)
        elif api == "global_request":
            p.tc.global_request("x@example.com", None, True)
        elif api == "request_port_forward":
            p.tc.request_port_forward("127.0.0.1", 2222)
        elif api == "renegotiate_keys":
            p.tc.renegotiate_keys()
        elif api in ("auth_password", "srt_auth_password"):
            p.tc.auth_password("alice", "pw", fallback=False)
        elif api in ("auth_publickey", "srt_auth_publickey"):
            p.tc.auth_publickey("alice", ukey)
        elif api == "auth_interactive":
            p.tc.auth_interactive("alice", lambda t, i, pr: ["x" for _ in pr])
        elif api in ("auth_none", "srt_auth_none"):
            p.tc.auth_none("alice")
        elif api == "start_client":
            p.tc.start_client()
        elif api == "accept_none":
            p.ts.accept(None)
        elif api == "accept_timeout":
            p.ts.accept(3600)
        elif api == "server_recv":
            sch.recv(100)
        elif api == "server_sendall":
            sch.sendall(b"y" * 50000)
        elif api == "start_server":
            p.ts.start_server(server=server)
        elif api == "server_renegotiate":
            p.ts.renegotiate_keys()

    result = {}

    def run_call():
        result["t0"] = sim.now
        try:
            call()
            result["how"] = "returned"
        except Exception as e:
            result["how"] = "raised " + type(e).__name__
        result["t1"] = sim.now

    def do_loss():
        sim.record("loss", loss)
        if loss == "proxy-exit":
            # the proxy process dies: its stdout reaches end of file
            box["proc"].returncode = 1
            link.cut(1, "eof")
        elif loss == "proxy-output-ends":
            link.cut(1, "eof")
        elif loss == "peer-close":
            peer.close() if not raw_start else (link.b if victim_role == "client" else link.a).close()
        elif loss == "link-eof":
            link.cut(0 if victim_role == "server" else 1, "eof")
        elif loss == "link-reset":
            link.cut(0 if victim_role == "server" else 1, "reset")
        elif loss == "link-error-one-arg":
            # a socket-like object that reports the loss as OSError("...") without an errno
            link.cut(0 if victim_role == "server" else 1, "reset1")
        elif loss == "local-close":
            victim.close()
        elif loss == "garbage-then-eof":
            # random bytes are not reliably a detectable protocol error (the victim may legitimately wait
            # for the rest of a huge packet), so the stream also ends
            link.inject(0 if victim_role == "server" else 1, sim.payload.randbytes(64))
            link.cut(0 if victim_role == "server" else 1, "eof")
            sim.fault("garbage_injected")
        elif loss == "protocol-error":
            # a detectable protocol error while the stream stays open: one packet towards the victim has its last
            # byte (MAC / tag) damaged in flight; before the handshake, an SSH-1 banner
            d = 0 if victim_role == "server" else 1
            if raw_start or not peer.is_active():
                link.inject(d, b"SSH-1.5-ancient\r\n")
            else:
                state = {"done": False}

                def tap(link_, dd, data):
                    if dd == d and not state["done"] and len(data) > 40:
                        state["done"] = True
                        sim.fault("packet_damaged_in_flight")
                        return (data[:-1] + bytes([data[-1] ^ 0x40]),)
                    return (data,)
                link.tap = tap
                m = paramiko.Message()
                m.add_byte(bytes([2])); m.add_string(b"n" * 64)
                try:
                    peer.packetizer.send_message(m)
                except Exception:
                    pass
        elif loss == "peer-disconnect":
            if not raw_start and peer.is_active():
                m = paramiko.Message()
                m.add_byte(bytes([1])); m.add_int(2); m.add_string("bye"); m.add_string("en")
                try:
                    peer.packetizer.send_message(m)
                except Exception:
                    pass
                peer.close()
            else:
                (link.b if victim_role == "client" else link.a).close()
        result["loss_at"] = sim.now + lat

    if raw_start and victim_role == "client":
        pass     # nothing to prepare: link.b is an idle socket
    if phase == "blocked-first":
        t = sim.spawn(run_call, "api-call")
        sim.sleep(0.5 + 2 * lat)
        if t.state != core.DONE:
            sim.probe("loss_during_blocked_call")
        do_loss()
    elif phase == "racing":
        t = sim.spawn(run_call, "api-call")
        sim.spawn(do_loss, "loss")
    else:
        do_loss()
        sim.sleep(T_INACTIVE + lat + 0.2)
        t = sim.spawn(run_call, "api-call")
    # ---- liveness
    while "loss_at" not in result:
        sim.sleep(0.05)
    started_threads = victim.is_alive() or victim.active or not raw_start
    ref = None
    steps0 = None
    while t.state != core.DONE:
        sim.sleep(0.25)
        base = max(result["loss_at"], result.get("t0", 0.0))
        if ref is None and sim.now >= base:
            ref = base
            steps0 = t.steps
        if ref is not None and (sim.now - ref > T_CALL + 0.5 or t.steps - steps0 > STEP_CAP):
            spinning = t.steps - steps0 > STEP_CAP
            raise Violation(("C13", "call-spins" if spinning else "call-never-returns", api, loss if loss == "local-close" else "peer-or-link-loss",
                             phase if phase == "after" else "during", core.where_parked(t)),
                            "%s (%s, channel timeout %r) %s %.1f virtual s after the connection ended by %s; parked in %s"
                            % (api, phase, ctimeout, "is still spinning" if spinning else "has not returned",
                               sim.now - ref, loss, core.where_parked(t)), desc)
    desc["outcome"] = result.get("how")
    # "... and so does every such call made afterwards": not only the first one.  A second wave of calls that send
    # something (a first call after the loss may leave state behind that only the next one trips over)
    if not raw_start:
        wave = [("send_ignore", lambda: victim.send_ignore(8)),
                ("global_request", lambda: victim.global_request("keepalive@verif", wait=False)),
                ("renegotiate_keys", lambda: victim.renegotiate_keys()),
                ("send_ignore-again", lambda: victim.send_ignore(8))]
        order = [wave[sim.choose(len(wave))] for _ in range(2 + sim.choose(2))]
        for name, fn in order:
            box2 = {}

            def run2(fn=fn):
                try:
                    fn()
                    box2["how"] = "returned"
                except Exception as e:
                    box2["how"] = "raised " + type(e).__name__
            t0 = sim.now
            t2 = sim.spawn(run2, "later-" + name)
            while t2.state != core.DONE:
                sim.sleep(0.25)
                if sim.now - t0 > T_CALL + 0.5:
                    raise Violation(("C13", "call-never-returns", "later-" + name.split("-")[0], "after-" + api.split(":")[-1],
                                     core.where_parked(t2)),
                                    "%s, made after the connection had ended by %s and after %s had returned, has not "
                                    "returned for %.1f virtual s; parked in %s (earlier in this wave: %s)"
                                    % (name, loss, api, sim.now - t0, core.where_parked(t2), [n for n, _ in order]), desc)
            sim.probe("later_call_" + box2.get("how", "?").split(" ")[0])
    # the transport itself must have noticed
    if not raw_start or victim.is_alive():
        waited = 0.0
        while victim.is_active() and waited < T_INACTIVE + 0.5:
            sim.sleep(0.1); waited += 0.1
        if victim.is_active() and sim.now - result["loss_at"] > T_INACTIVE:
            raise Violation(("C13", "transport-still-active", loss), "victim transport still reports active %.1f s after %s"
                            % (sim.now - result["loss_at"], loss), desc)
    sim.probe("call_" + (result.get("how") or "?").split(" ")[0])
    p.close()
    return {"sample": desc, "case_key": "%s|%s|%s|%r" % (api, loss, phase, ctimeout), "nontrivial": True, "counts": [api, loss, phase]}


def fill(chan):
    """exhaust the peer's window so that the next send blocks"""
    chan.settimeout(0.5)
    try:
        while True:
            chan.send(b"f" * 60000)
    except socket.timeout:
        pass
    finally:
        chan.settimeout(None)
