"""C45 -- agent signing requests ask for the hash the caller requested.

UNIT engine over the agent stream seam: the real AgentSSH / AgentKey talk to a
simulated ssh-agent (a harness task) through a simulated stream connection whose
delivery the simulator owns.
Generated: agent identities of every key type incl. certificates (and a type
paramiko does not know); several sign_ssh_data calls per key object with
algorithm names from paramiko's lists, None and unknown names; random data
1..70000 bytes; agent replies of every type number.
Faults: the reply is fragmented arbitrarily (down to one byte per recv), the
agent closes the connection mid-reply, the connection's send accepts only a
prefix (short write).
Oracle: the bytes the agent received parse as SIGN_REQUEST(key blob as listed
by the agent, data, flags) with flags 2 / 4 exactly for the rsa-sha2-256 /
rsa-sha2-512 names and their certificate forms and 0 otherwise; the signature
blob comes back unchanged; a reply of any other type, or end of stream, raises;
every call ends within the liveness bound."""
import base64
import os
import struct

import paramiko
from paramiko.agent import AgentSSH
from paramiko.ssh_exception import SSHException

from sim import core, ssh
from sim.core import Violation
from sim.net import Link, NetKnobs

PROPERTY = "C45"
LEVEL = "exploration"
BUDGET = {"quick": {"runs": 5000, "wall": 35}, "thorough": {"runs": 300000, "wall": 540}}
RULE = ("Each run: a simulated agent holding 2-7 identities (RSA, ECDSA, Ed25519, their certificates, an unknown type); "
        "3-10 sign_ssh_data calls spread over the key objects with seeded algorithm names and data; per call the agent "
        "answers with a signature, another reply type, or closes mid-reply; recv fragmentation and short sends drawn from "
        "the seed.")
COMPONENTS = {"real": ["paramiko.agent.AgentSSH._connect/_send_message/_read_all, AgentKey incl. sign_ssh_data, Message"],
              "simulated": ["the ssh-agent (harness task speaking the agent protocol)", "the stream connection to it "
                            "(fragmentation, short writes, EOF)", "scheduling"]}
ASSUMPTIONS = ["one caller at a time per agent connection (AgentSSH has no lock and promises none)",
               "for a certificate identity both the certificate blob as listed by the agent and the public-key blob of the "
               "certified key count as 'that key's public blob' (paramiko sends the latter for RSA certificates on purpose "
               "and the former for ECDSA / Ed25519 certificates); any other blob is a violation"]
KEYDIR = ssh.KEYDIR
ALGOS = (None, "ssh-rsa", "rsa-sha2-256", "rsa-sha2-512", "rsa-sha2-256-cert-v01@openssh.com",
         "rsa-sha2-512-cert-v01@openssh.com", "ssh-rsa-cert-v01@openssh.com", "ssh-ed25519", "ecdsa-sha2-nistp256",
         "ssh-dss", "rsa-sha2-384", "RSA-SHA2-256", "rsa-sha2-256 ", "", "rsa-sha2-512,rsa-sha2-256", "x")
EXPECT = {"rsa-sha2-256": 2, "rsa-sha2-512": 4, "rsa-sha2-256-cert-v01@openssh.com": 2,
          "rsa-sha2-512-cert-v01@openssh.com": 4}
T_CALL = 5.0

_blobs = {}
_pub = {}


def blobs():
    if not _blobs:
        for name in ("rsa1", "rsa2", "ecdsa256_1", "ecdsa384_1", "ecdsa521_1", "ed25519_1"):
            _blobs[name] = ssh.key(name).asbytes()
        for name in ("cert_rsa", "cert_ecdsa256", "cert_ed25519"):
            with open(os.path.join(KEYDIR, name + ".key-cert.pub")) as f:
                _blobs[name] = base64.b64decode(f.read().split()[1])
        _blobs["unknown"] = struct.pack(">I", 11) + b"ssh-newalgo" + struct.pack(">I", 5) + b"abcde"
        # what a request has to name: the key's public blob.  For a certificate identity that is the public key
        # the certificate is about (paramiko deliberately does not send the certificate itself, see the note in
        # AgentKey.sign_ssh_data); for a type it cannot interpret, the blob as listed.
        for name, v in _blobs.items():
            _pub[name] = v
        _pub["cert_rsa"] = paramiko.RSAKey.from_private_key_file(os.path.join(KEYDIR, "cert_rsa.key")).asbytes()
        _pub["cert_ecdsa256"] = paramiko.ECDSAKey.from_private_key_file(os.path.join(KEYDIR, "cert_ecdsa256.key")).asbytes()
        _pub["cert_ed25519"] = paramiko.Ed25519Key.from_private_key_file(os.path.join(KEYDIR, "cert_ed25519.key")).asbytes()
    return _blobs


def s_(x):
    return struct.pack(">I", len(x)) + x


def sim_kw(seed):
    return {"max_steps": 1_000_000, "max_time": 3600.0}


class FakeAgent:
    """Speaks the agent protocol on its end of the link; records every frame it receives."""

    def __init__(self, sim, sock, identities):
        self.sim = sim
        self.sock = sock
        self.identities = identities
        self.script = []          # per sign request: ("sig", blob) | ("type", n, body) | ("eof", nbytes) | ("close",)
        self.requests = []        # raw request bodies (without length prefix)
        self.partial = b""        # bytes of an incomplete frame at EOF
        self.replies = []

    def run(self):
        buf = b""
        sock = self.sock
        while True:
            try:
                x = sock.recv(65536)
            except Exception:
                break
            if not x:
                break
            buf += x
            while len(buf) >= 4:
                n = struct.unpack(">I", buf[:4])[0]
                if len(buf) < 4 + n:
                    break
                body, buf = buf[4:4 + n], buf[4 + n:]
                if not self.handle(body):
                    self.partial = buf
                    return
        self.partial = buf

    def reply(self, payload, cut=None):
        frame = struct.pack(">I", len(payload)) + payload
        if cut is not None:
            frame = frame[:cut]
        if frame:
            self.sock.sendall(frame)

    def handle(self, body):
        if body[:1] == b"\x0b":
            out = b"\x0c" + struct.pack(">I", len(self.identities))
            for blob, comment in self.identities:
                out += s_(blob) + s_(comment)
            self.reply(out)
            return True
        self.requests.append(body)
        act = self.script.pop(0) if self.script else ("type", 5, b"")
        self.replies.append(act)
        if act[0] == "sig":
            self.reply(b"\x0e" + s_(act[1]))
        elif act[0] == "type":
            self.reply(bytes([act[1]]) + act[2])
        elif act[0] == "eof":
            self.reply(b"\x0e" + s_(act[2]), cut=act[1])
            self.sock.close()
            return False
        else:
            self.sock.close()
            return False
        return True


def scenario(sim):
    sim.p_switch = (0.0, 0.05, 0.3)[sim.choose(3)]
    b = blobs()
    names = list(b)
    n_id = 2 + sim.choose(6)
    ids = []
    for _ in range(n_id):
        nm = names[sim.choose(len(names))]
        ids.append((b[nm], nm.encode()))
    ka = NetKnobs()
    ka.p_frag = (0.0, 0.3, 0.9, 0.9)[sim.choose(4)]
    ka.frag_one = bool(sim.choose(3) == 0)
    ka.p_short = (0.0, 0.0, 0.3, 0.8)[sim.choose(4)]
    link = Link(sim, "agent-client", "agent", latency=((0.0, 0.0), (0.001, 0.003))[sim.choose(2)], knobs_a=ka)
    agent = FakeAgent(sim, link.b, ids)
    atask = sim.spawn(agent.run, "agent")
    a = AgentSSH()
    box = {}

    def connect():
        try:
            a._connect(link.a)
            box["ok"] = True
        except Exception as e:
            box["exc"] = e
    t = sim.spawn(connect, "connect")
    if not sim.join_task(t, T_CALL):
        raise Violation(("C45", "call-never-returns", "connect", core.where_parked(t)),
                        "AgentSSH._connect did not return within %.0f virtual seconds (parked in %s)" % (T_CALL, core.where_parked(t)))
    if "exc" in box:
        raise Violation(("C45", "connect-failed", type(box["exc"]).__name__),
                        "listing %d identities failed: %r (fragmentation %.1f, short sends %.1f)" % (n_id, box["exc"], ka.p_frag, ka.p_short))
    keys = a.get_keys()
    if [k.blob for k in keys] != [i[0] for i in ids]:
        raise Violation(("C45", "identities-differ"), "agent listed %d identities, AgentSSH reports %d or different blobs" % (n_id, len(keys)))
    calls = []
    alive = True
    for ci in range(3 + sim.choose(8)):
        if not alive:
            break
        ki = sim.choose(len(keys))
        key = keys[ki]
        algo = ALGOS[sim.choose(len(ALGOS))]
        data = sim.payload.randbytes((1, 32, 300, 5000, 70000)[sim.choose(5)])
        k = sim.choose(12)
        sig = s_(b"some-sig-algo") + s_(sim.payload.randbytes((0, 1, 64, 256, 513)[sim.choose(5)]))
        if k < 7:
            act = ("sig", sig)
        elif k < 10:
            act = ("type", (5, 6, 12, 13, 30, 102, 0, 255, 15, 11)[sim.choose(10)],
                   (b"", s_(b"looks-like-a-signature"), sim.payload.randbytes(7))[sim.choose(3)])
        elif k == 10:
            full = 4 + 1 + len(sig) + 4
            act = ("eof", (0, 1, 3, 4, 5, 8, full - 1)[sim.choose(7)], sig)
        else:
            act = ("close",)
        agent.script.append(act)
        nreq = len(agent.requests)
        res = {}

        def call():
            try:
                if algo is None and sim.choose(2):
                    res["sig"] = key.sign_ssh_data(data)
                else:
                    res["sig"] = key.sign_ssh_data(data, algo)
            except Exception as e:
                res["exc"] = e
        ct = sim.spawn(call, "sign")
        desc = "call %d: key %s (%s), algorithm %r, %d data bytes, agent action %s" % (
            ci, ki, ids[ki][1].decode(), algo, len(data), act[0] if act[0] != "type" else "type-%d" % act[1])
        if not sim.join_task(ct, T_CALL):
            where = core.where_parked(ct)
            # a short send that the library did not complete leaves the agent waiting for the rest of the frame
            lost = len(agent.requests) == nreq
            raise Violation(("C45", "call-never-returns", "sign", "request-incomplete-at-agent" if lost else where),
                            "%s: sign_ssh_data did not return within %.0f virtual seconds (parked in %s; the agent %s)"
                            % (desc, T_CALL, where, "is still waiting for the rest of the request frame" if lost else "answered"))
        sim.probe("sign_calls")
        calls.append((ki, algo, act[0]))
        # ---- what the agent received
        if len(agent.requests) != nreq + 1:
            if "exc" in res and len(agent.requests) == nreq:
                raise Violation(("C45", "request-not-delivered", type(res["exc"]).__name__),
                                "%s: raised %r and the agent never received a complete request (%d stray bytes)"
                                % (desc, res["exc"], len(agent.partial)))
            raise Violation(("C45", "request-count", str(len(agent.requests) - nreq)),
                            "%s: the agent received %d requests for one call" % (desc, len(agent.requests) - nreq))
        req = agent.requests[-1]
        want_flags = EXPECT.get(algo, 0)
        parsed = parse_sign_request(req)
        if parsed is None:
            raise Violation(("C45", "request-malformed"), "%s: request does not parse as SIGN_REQUEST: %r" % (desc, req[:60]))
        blob, rdata, flags = parsed
        want_blob = _pub[ids[ki][1].decode()]
        if blob != want_blob and blob != ids[ki][0]:
            raise Violation(("C45", "request-wrong-key-blob", "cert" if b"cert" in ids[ki][1] else "plain"),
                            "%s: request names a key blob of %d bytes that is not the key's %d-byte public blob "
                            "(the agent listed %d bytes)" % (desc, len(blob), len(want_blob), len(ids[ki][0])))
        if rdata != data:
            raise Violation(("C45", "request-wrong-data"), "%s: request carries %d data bytes, caller passed %d" % (desc, len(rdata), len(data)))
        if flags != want_flags:
            raise Violation(("C45", "request-wrong-flags", str(algo), "%d-instead-of-%d" % (flags, want_flags)),
                            "%s: request flags %d, expected %d" % (desc, flags, want_flags))
        # ---- what the caller got
        if act[0] == "sig":
            if "exc" in res:
                raise Violation(("C45", "signature-not-returned", type(res["exc"]).__name__),
                                "%s: the agent signed but the call raised %r" % (desc, res["exc"]))
            if res["sig"] != act[1]:
                raise Violation(("C45", "signature-altered"), "%s: returned %d bytes, the agent's signature blob has %d"
                                % (desc, len(res["sig"]), len(act[1])))
            sim.probe("signatures_returned")
        else:
            if "exc" not in res:
                raise Violation(("C45", "non-signature-reply-accepted", act[0] if act[0] != "type" else "type-%d" % act[1]),
                                "%s: the call returned %r although the agent did not send a signature" % (desc, res["sig"][:40]))
            if not isinstance(res["exc"], (SSHException, EOFError, OSError)):
                raise Violation(("C45", "non-signature-reply-wrong-exception", type(res["exc"]).__name__),
                                "%s: raised %r" % (desc, res["exc"]))
            sim.probe("refusals_raised")
            if act[0] in ("eof", "close"):
                alive = False
    a._close()
    link.a.close()
    sim.join_task(atask, 5.0)
    # distinct = distinct (identity list, sequence of (key, algorithm, agent action)); non-trivial = a stream fault fired
    return {"sample": {"identities": [i[1].decode() for i in ids], "calls": calls[:6], "p_frag": ka.p_frag,
                       "p_short": ka.p_short}, "nontrivial": bool(sim.faults) or any(c[2] != "sig" for c in calls),
            "case_key": repr(([i[1] for i in ids], calls)), "counts": sorted(set(c[2] for c in calls))}


def parse_sign_request(req):
    if req[:1] != b"\x0d":
        return None
    i = 1
    out = []
    for _ in range(2):
        if len(req) < i + 4:
            return None
        n = struct.unpack(">I", req[i:i + 4])[0]
        if len(req) < i + 4 + n:
            return None
        out.append(req[i + 4:i + 4 + n])
        i += 4 + n
    if len(req) != i + 4:
        return None
    return out[0], out[1], struct.unpack(">I", req[i:i + 4])[0]
