"""C10 -- long sessions rekey; peers that refuse to rekey are dropped.

LINK/CHAN engine with per-side scaled-down rekey thresholds (packetizer_class
subclasses).  Honest runs: send-heavy / receive-heavy / ping-pong / idle-after-
crossing traffic with several threshold crossings; oracle computed from the
wire: once a side's per-epoch sent or received bytes/packets reach its
threshold, its KEXINIT follows within T_CALL, the exchange completes, counters
restart, data stays intact.  Byzantine runs: a peer that swallows KEXINIT and
keeps sending must see the victim go inactive within T_CALL of having sent the
overflow allowance."""
from sim import ssh, wiretap, core
from sim.core import Violation
from sim.net import Link

PROPERTY = "C10"
LEVEL = "exploration"
BUDGET = {"quick": {"runs": 900, "wall": 55}, "thorough": {"runs": 40000, "wall": 570}}
T_CALL = 5.0
RULE = ("Each run: per-side REKEY_BYTES in 2^14..2^18 and REKEY_PACKETS in 2^6..2^10, overflow allowance >= 2^18 "
        "bytes / 2^10 packets, channel window 32-64 KiB; traffic shape, volumes, latency and schedule from the seed; "
        "1/4 of runs use a byzantine peer that swallows KEXINIT and keeps sending.")
COMPONENTS = {"real": ["both Transports/Packetizers (thresholds scaled through packetizer_class subclasses)"],
              "simulated": ["socket", "clock", "scheduling", "entropy"], "oracle": ["per-epoch counters recomputed from the wiretap's packet sizes"]}
ASSUMPTIONS = ["T_CALL = 5 virtual seconds is a progress bound (the transport thread polls every 0.1 s), not a performance demand",
               "overflow allowances are kept above what an honest peer can have in flight (window-bounded), so an honest peer is never expected to be dropped"]


def sim_kw(seed):
    return {"max_steps": 6_000_000, "max_time": 7200.0}


def scenario(sim):
    sim.p_switch = (0.02, 0.1)[sim.choose(2)]
    lat = (0.0, 0.005, 0.05)[sim.choose(3)]
    link = Link(sim, latency=(lat, lat))
    thr = {}
    for side in ("c", "s"):
        thr[side] = {"REKEY_BYTES": 1 << (14 + sim.choose(5)), "REKEY_PACKETS": 1 << (6 + sim.choose(5)),
                     "REKEY_BYTES_OVERFLOW_MAX": 1 << (18 + sim.choose(2)),
                     "REKEY_PACKETS_OVERFLOW_MAX": 1 << (10 + sim.choose(2))}
    byz = sim.choose(4) == 0
    plog = []
    swallowed = {"n": 0}

    def filter_in(pk, ptype, payload):
        if ptype == 20 and swallowed.get("armed"):
            swallowed["n"] += 1
            sim.fault("kexinit_swallowed")
            return True
        return False

    if byz:
        adv = ("c", "s")[sim.choose(2)]
        pks = {}
        for side in ("c", "s"):
            if side == adv:
                cls = ssh.byzantine_packetizer(side, plog, filter_in=filter_in)
                for k, v in thr[side].items():
                    setattr(cls, k, 1 << 40)     # the adversary itself never wants to rekey
                pks[side] = cls
            else:
                pks[side] = ssh.observing_packetizer(side, plog, **thr[side])
    else:
        adv = None
        pks = {side: ssh.observing_packetizer(side, plog, **thr[side]) for side in ("c", "s")}
    win = (32768, 65536)[sim.choose(2)]
    p = ssh.tapped_pair(sim, link=link, client_pk=pks["c"], server_pk=pks["s"],
                        client_kw={"default_window_size": win, "default_max_packet_size": (4096, 8192)[sim.choose(2)]},
                        server_kw={"default_window_size": win, "default_max_packet_size": (4096, 8192)[sim.choose(2)]})
    p.plog = plog
    desc = {"thresholds": thr, "latency": lat, "byzantine": adv, "window": win}
    p.start(timeout=60)
    p.wait_server()
    p.auth_password()
    if byz:
        return refusing_peer(sim, p, desc, adv, thr, swallowed)
    ch = p.tc.open_session()
    sch = p.ts.accept(30)
    ch.settimeout(120); sch.settimeout(120)
    shapes = []
    ledger_ok = True
    nphase = 2 + sim.choose(3)
    for ph in range(nphase):
        shape = ("send-heavy", "receive-heavy", "ping-pong", "idle-after-crossing", "tiny-packets",
                 "one-way-noise")[sim.choose(6)]
        vol = (20000, 70000, 150000, 300000)[sim.choose(4)]
        shapes.append((shape, vol))
        try:
            if shape in ("send-heavy", "idle-after-crossing"):
                ledger_ok &= transfer(sim, ch, sch, vol)
            elif shape == "receive-heavy":
                ledger_ok &= transfer(sim, sch, ch, vol)
            elif shape == "one-way-noise":
                # traffic nothing answers (keep-alive style IGNOREs): the sender's own transport thread sits
                # idle in a read while another thread crosses the threshold, and nothing inbound wakes it
                t = (p.tc, p.ts)[sim.choose(2)]
                size = (16, 200, 1500)[sim.choose(3)]
                for _ in range(min(400, max(8, vol // (4 * size)))):
                    t.send_ignore(size)
                sim.sleep(3.0)
                sim.probe("one_way_noise_phase")
            elif shape == "tiny-packets":
                for _ in range(80 + vol // 1000):
                    ledger_ok &= ssh.echo_round(sim, ch, sch, 1, 1)
            else:
                for _ in range(vol // 8000):
                    ledger_ok &= ssh.echo_round(sim, ch, sch, 4000, 4000)
            if shape == "idle-after-crossing":
                sim.sleep(3.0)
        except Exception as e:
            raise Violation(("C10", "honest-session-broke", shape, type(e).__name__),
                            "honest session failed during %s: %r (client exc %r, server exc %r)"
                            % (shape, e, p.tc.get_exception(), p.ts.get_exception()), desc)
    desc["shapes"] = shapes
    if not ledger_ok:
        raise Violation(("C10", "data-corrupted-across-rekey"), "transferred bytes differ", desc)
    ssh.quiesce(sim, [link], (), settle=0.25, limit=30)
    sim.sleep(T_CALL + 1.0)      # let any pending obligation run out
    if not (p.tc.is_active() and p.ts.is_active()):
        raise Violation(("C10", "honest-peer-dropped"), "a transport went inactive in an honest session: %r / %r"
                        % (p.tc.get_exception(), p.ts.get_exception()), desc)
    check_rekey_obligations(sim, p, thr, desc, sim.now)
    p.close()
    return {"sample": desc, "nontrivial": True, "counts": [s for s, _ in shapes]}


def transfer(sim, src, dst, n):
    data = sim.payload.randbytes(n)
    got = []

    def reader():
        total = 0
        while total < n:
            x = dst.recv(65536)
            if not x:
                break
            got.append(x)
            total += len(x)

    t = sim.spawn(reader, "reader")
    src.sendall(data)
    sim.join_task(t, 300.0)
    return b"".join(got) == data


def wire_sizes(p):
    """per side: list of wire lengths of the packets it sent, in order."""
    out = {0: [], 1: []}
    for d, pk in p.tap.log:
        out[d].append(pk.wire_len)
    return out


def check_rekey_obligations(sim, p, thr, desc, end_time):
    tap = p.tap
    if tap.error is not None:
        raise Violation(("C10", "tap-error"), "wiretap lost the session: %s" % (tap.error,), desc)
    sizes = wire_sizes(p)
    idx = {"c": 0, "s": 1}
    txi = {"c": 0, "s": 0}
    rxi = {"c": 0, "s": 0}
    st = {s: {"tx_b": 0, "tx_p": 0, "rx_b": 0, "rx_p": 0, "in_kex": True, "sent_nk": False, "got_nk": False,
              "due": None, "crossings": 0, "rekeys": 0} for s in ("c", "s")}
    for e in sorted(p.plog):
        seq, now, side, kind, ptype, payload = e
        s = st[side]
        if s["due"] is not None and now - s["due"][0] > T_CALL:
            raise Violation(("C10", "no-rekey-after-threshold", side, s["due"][1]),
                            "%s crossed its %s threshold at t=%.3f but had sent no KEXINIT by t=%.3f"
                            % (side, s["due"][1], s["due"][0], now), desc)
        if kind == "tx":
            k = txi[side]; txi[side] += 1
            wl = sizes[idx[side]][k] if k < len(sizes[idx[side]]) else 0
            s["tx_b"] += wl; s["tx_p"] += 1
            if ptype == 20:
                s["in_kex"] = True; s["sent_nk"] = False; s["got_nk"] = False
                if s["due"] is not None:
                    s["rekeys"] += 1
                s["due"] = None
            elif ptype == 21:
                s["tx_b"] = 0; s["tx_p"] = 0; s["sent_nk"] = True
        else:
            k = rxi[side]; rxi[side] += 1
            other = 1 - idx[side]
            wl = sizes[other][k] if k < len(sizes[other]) else 0
            s["rx_b"] += wl; s["rx_p"] += 1
            if ptype == 21:
                s["rx_b"] = 0; s["rx_p"] = 0; s["got_nk"] = True
            elif ptype == 20 and not s["in_kex"]:
                # peer started an exchange; this side will answer with its own KEXINIT
                pass
        if s["in_kex"] and s["sent_nk"] and s["got_nk"]:
            s["in_kex"] = False
        if not s["in_kex"] and s["due"] is None:
            t = thr[side]
            why = None
            if s["tx_b"] >= t["REKEY_BYTES"]:
                why = "sent-bytes"
            elif s["tx_p"] >= t["REKEY_PACKETS"]:
                why = "sent-packets"
            elif s["rx_b"] >= t["REKEY_BYTES"]:
                why = "received-bytes"
            elif s["rx_p"] >= t["REKEY_PACKETS"]:
                why = "received-packets"
            if why:
                s["due"] = (now, why)
                s["crossings"] += 1
                sim.probe("threshold_crossed_" + why)
    for side, s in st.items():
        if s["due"] is not None and end_time - s["due"][0] > T_CALL:
            raise Violation(("C10", "no-rekey-after-threshold", side, s["due"][1]),
                            "%s crossed its %s threshold at t=%.3f and never sent KEXINIT (run ended t=%.3f)"
                            % (side, s["due"][1], s["due"][0], end_time), desc)
        if s["in_kex"] and s["crossings"]:
            raise Violation(("C10", "rekey-never-completed", side), "%s is still inside a key exchange at the end of the run" % side, desc)
        sim.probe("rekeys_after_crossing", s["rekeys"])
    desc["crossings"] = {k: v["crossings"] for k, v in st.items()}


def refusing_peer(sim, p, desc, adv, thr, swallowed):
    victim = p.ts if adv == "c" else p.tc
    advt = p.tc if adv == "c" else p.ts
    vside = "s" if adv == "c" else "c"
    swallowed["armed"] = True
    t = thr[vside]
    chunk = 1024
    sent_after = 0
    pk_after = 0
    deadline = None
    adir = p.tap.dirs[0 if adv == "c" else 1]
    base = None
    # in half of the runs the victim's request is triggered by what it SENT (its received counters are still far
    # below the threshold when the refusing peer starts to use up the allowance)
    send_triggered = bool(sim.choose(2))
    desc["trigger"] = "victim-sent" if send_triggered else "victim-received"
    if send_triggered:
        for i in range(5000):
            if swallowed["n"] or not victim.is_active():
                break
            try:
                victim.send_ignore(chunk)
            except Exception:
                break
            if i % 16 == 0:
                sim.sleep(0.01)
        sim.sleep(0.3 + 2 * desc["latency"])
        if swallowed["n"]:
            sim.probe("refusal_after_send_triggered_request")
    # the adversary keeps the line busy with IGNORE messages and never answers KEXINIT
    for i in range(5000):
        if not victim.is_active():
            break
        try:
            advt.send_ignore(chunk)
        except Exception:
            break
        if swallowed["n"] and deadline is None:
            if base is None:
                base = (adir.bytes_epoch, adir.packets_epoch)
            # exact wire sizes as counted by the wiretap, from the moment the adversary saw (and dropped) KEXINIT
            sent_after = adir.bytes_epoch - base[0]
            pk_after = adir.packets_epoch - base[1]
            if sent_after >= t["REKEY_BYTES_OVERFLOW_MAX"] + 4096 or pk_after >= t["REKEY_PACKETS_OVERFLOW_MAX"] + 4:
                deadline = sim.now
                break
        if i % 16 == 0:
            sim.sleep(0.01)
    if not swallowed["n"]:
        raise Violation(("C10", "no-rekey-after-threshold", vside, "received"),
                        "victim never asked for a rekey although the peer sent %d KiB" % (i,), desc)
    waited = 0.0
    while victim.is_active() and waited < T_CALL + 2 * desc["latency"] + 1.0:
        sim.sleep(0.25)
        waited += 0.25
    if victim.is_active():
        raise Violation(("C10", "refusing-peer-not-dropped", vside),
                        "peer ignored KEXINIT and sent %d bytes / %d packets beyond it (allowance %d / %d) but the victim is still active"
                        % (sent_after, pk_after, t["REKEY_BYTES_OVERFLOW_MAX"], t["REKEY_PACKETS_OVERFLOW_MAX"]), desc)
    sim.probe("refusing_peer_dropped")
    p.close()
    return {"sample": desc, "nontrivial": True, "counts": ["byzantine-" + desc["trigger"]]}
