"""C21 -- channel byte streams arrive intact, in order and on the right stream.

CHAN engine: 1-8 concurrent channels on one real transport pair; per channel
seeded payloads client->server (stdout) and server->client (stdout, stderr),
random send and recv chunk sizes, set_combine_stderr(True) at a seeded instant
(possibly with stderr bytes already buffered), exit statuses, re-keys and zlib
compression in a third of the runs, latency.
Oracle: per (channel, stream) the concatenation of receives equals the
concatenation of sends; with combining the stdout stream is an order-preserving
merge (disjoint alphabets make every byte attributable) and recv_stderr yields
nothing further; the reported exit status is the one sent."""
import socket

from sim import ssh, core
from sim.chanwork import Workload, ChanSpec, alphabet
from sim.core import Violation

PROPERTY = "C21"
LEVEL = "exploration"
BUDGET = {"quick": {"runs": 400, "wall": 55}, "thorough": {"runs": 40000, "wall": 570}}
RULE = ("Each run: 1-8 channels, payloads 0..512 KiB (size class drawn per channel; most small), random send/recv chunking, "
        "combine-stderr switch point, exit status, 0-2 re-keys, zlib, latency 0-50 ms, small receive windows (32-64 KiB) and "
        "packet sizes in a third of the runs, all from the seed.")
COMPONENTS = {"real": ["both Transports/Channels/BufferedPipes unmodified, used through the public Channel API"],
              "simulated": ["socket", "clock", "scheduling", "entropy"]}
ASSUMPTIONS = ["stdout payload bytes are drawn from 0..127 and stderr bytes from 128..255 on combining channels so that a merged stream can be split again"]


def sim_kw(seed):
    return {"max_steps": 8_000_000, "max_time": 7200.0}


def size(sim):
    k = sim.choose(10)
    if k < 4:
        return sim.choose(200)
    if k < 8:
        return sim.choose(20000)
    if k == 8:
        return 30000 + sim.choose(100000)
    return 100000 + sim.choose(424288)


def scenario(sim):
    sim.p_switch = (0.02, 0.1, 0.3)[sim.choose(3)]
    lat = (0.0, 0.001, 0.05)[sim.choose(3)]
    rekeys = (0, 0, 1, 2)[sim.choose(4)]
    compress = sim.choose(3) == 0
    nchan = (1, 1, 2, 3, 5, 8)[sim.choose(6)]
    # small receive windows / packet sizes in a third of the runs: sends are then cut short by the window and
    # sendall has to come back for the rest (both directions)
    small = sim.choose(3) == 0
    server_kw = None
    if small:
        server_kw = {"default_window_size": (32768, 40000, 65536)[sim.choose(3)],
                     "default_max_packet_size": (4096, 32768)[sim.choose(2)]}
    w = Workload(sim, latency=lat, rekeys=rekeys, compress=compress, server_kw=server_kw)
    w.connect()
    big_budget = 600000
    desc = {"channels": [], "latency": lat, "rekeys": rekeys, "zlib": compress, "small_windows": server_kw}
    # the two sides number their channels independently: refused opens beforehand make the numbers differ, so that
    # "my id" and "the peer's id" of a channel are no longer the same number
    skew = sim.choose(4)
    desc["id_skew"] = skew
    for _ in range(skew % 2 * (1 + sim.choose(2))):
        try:
            w.p.ts.open_forwarded_tcpip_channel(("a.example", 1), ("b.example", 2))     # the client has no handler: refused
        except Exception:
            sim.probe("server_side_open_refused")
    for _ in range(skew // 2 * (1 + sim.choose(2))):
        try:
            w.p.tc.open_channel("direct-tcpip", ("a.example", 1), ("b.example", 2), timeout=30)  # the server refuses
        except Exception:
            sim.probe("client_side_open_refused")
    for i in range(nchan):
        sp = ChanSpec()
        n1, n2, n3 = size(sim), size(sim), size(sim)
        if n1 + n2 + n3 > big_budget:
            n1, n2, n3 = n1 % 20000, n2 % 20000, n3 % 20000
        big_budget -= n1 + n2 + n3
        combine = sim.choose(3) == 0
        if small and combine:
            # the combining reader polls with a 50 ms channel timeout, which also governs a writer on the same
            # channel; with a small peer window that writer would time out legitimately
            n1 = 0
        sp.c2s = sim.payload.randbytes(n1)
        if combine:
            sp.s2c_out = alphabet(sim, n2, 0, 128)
            sp.s2c_err = alphabet(sim, n3, 128, 256)
            sp.combine_at = sim.choose(n3 + 1) if n3 else 0
            # (only when everything fits into the receive window: the client does not read before the EOF)
            if sim.choose(4) == 0 and n2 + n3 < (16000 if small else 1500000):
                sp.combine_at = -1        # switch combining on only after the peer's EOF has been processed
                sp.exit_status = None
        else:
            sp.s2c_out = sim.payload.randbytes(n2)
            sp.s2c_err = sim.payload.randbytes(n3)
        if sim.choose(2) and sp.combine_at != -1:
            sp.exit_status = (0, 1, 127, 255, 2 ** 31 - 1)[sim.choose(5)]
        if small and sim.choose(2):
            sp.window = (32768, 40000, 65536)[sim.choose(3)]
            sp.max_packet = (None, 4096, 32768)[sim.choose(3)]
        w.open(sp)
        desc["channels"].append({"c2s": n1, "s2c_out": n2, "s2c_err": n3, "combine_at": sp.combine_at, "exit": sp.exit_status})
    w.start_traffic()
    w.rekey_task()
    stuck = w.wait(900.0)
    for name, e, when in w.errors:
        raise Violation(("C21", "operation-failed", name.rstrip("0123456789"), type(e).__name__),
                        "%s failed at t=%.2f: %r (client exc %r, server exc %r)"
                        % (name, when, e, w.p.tc.get_exception(), w.p.ts.get_exception()), desc)
    if stuck:
        raise Violation(("C21", "transfer-stalled") + tuple(sorted(set(t.name.rstrip("0123456789") + "@" + core.where_parked(t) for t in stuck))),
                        "tasks still blocked: %s" % ["%s@%s" % (t.name, core.where_parked(t)) for t in stuck], desc)
    for idx, (ch, sch, sp) in enumerate(w.chans):
        got_c2s = bytes(w.received[(idx, "s", "out")])
        if got_c2s != sp.c2s:
            raise Violation(("C21", "stream-differs", "client-to-server"), diff_msg(idx, "client->server stdout", sp.c2s, got_c2s), desc)
        out = bytes(w.received[(idx, "c", "out")])
        err = bytes(w.received[(idx, "c", "err")])
        if sp.combine_at is None:
            if out != sp.s2c_out:
                raise Violation(("C21", "stream-differs", "server-to-client-stdout"), diff_msg(idx, "server->client stdout", sp.s2c_out, out), desc)
            if err != sp.s2c_err:
                raise Violation(("C21", "stream-differs", "server-to-client-stderr"), diff_msg(idx, "server->client stderr", sp.s2c_err, err), desc)
        else:
            if not sp.s2c_err.startswith(err):
                raise Violation(("C21", "stream-differs", "stderr-before-combine"), "channel %d: stderr read before combining is not a prefix of what was sent" % idx, desc)
            o = bytes(b for b in out if b < 128)
            e2 = bytes(b for b in out if b >= 128)
            if o != sp.s2c_out:
                raise Violation(("C21", "combined-stream-differs", "stdout-part"), diff_msg(idx, "stdout part of the combined stream", sp.s2c_out, o), desc)
            if err + e2 != sp.s2c_err:
                raise Violation(("C21", "combined-stream-differs", "stderr-part"),
                                "channel %d: stderr bytes read separately (%d) + merged into stdout (%d) != stderr sent (%d)%s"
                                % (idx, len(err), len(e2), len(sp.s2c_err), first_diff(sp.s2c_err, err + e2)), desc)
            if getattr(w, "stderr_after_combine", None):
                raise Violation(("C21", "stderr-data-after-combine"), "recv_stderr returned data after combining was switched on", desc)
            sim.probe("combine_checked")
            if e2:
                sim.probe("stderr_bytes_merged_into_stdout", len(e2))
        if sp.exit_status is not None:
            if w.exit_seen.get(idx) != sp.exit_status:
                raise Violation(("C21", "exit-status-differs"), "channel %d: sent exit status %r, client reports %r"
                                % (idx, sp.exit_status, w.exit_seen.get(idx)), desc)
    sim.probe("channels_verified", len(w.chans))
    if sim.choose(3) == 0 and not stuck:
        late_exit_status(sim, w, desc)
    w.p.close()
    return {"sample": desc, "nontrivial": True, "counts": ["chan:%d" % nchan]}


def late_exit_status(sim, w, desc):
    """The peer's exit status crosses our own CLOSE: it was sent before the peer saw our CLOSE, so it is 'the exit
    status the peer sends' and has to be the one reported once things have settled."""
    ch = w.p.tc.open_session(timeout=60)
    sch = w.p.ts.accept(60)
    st = (0, 3, 7, 255)[sim.choose(4)]
    sch.send_exit_status(st)                    # on the wire before the client does anything
    t = sim.spawn(ch.close, "late-close")       # may run before or after the status has been processed
    sim.sleep((0.0, 0.001, 0.2)[sim.choose(3)])
    sch.close()
    sim.join_task(t, 30.0)
    ssh.quiesce(sim, [w.link], (), settle=0.2, limit=10)
    got = ch.recv_exit_status()
    desc["late_exit_status"] = (st, got)
    if got != st:
        raise Violation(("C21", "exit-status-differs", "crossing-own-close"),
                        "the peer sent exit status %d before it saw our CLOSE; after both sides settled the channel "
                        "reports %r" % (st, got), desc)
    sim.probe("exit_status_crossing_close_checked")


def first_diff(a, b):
    n = min(len(a), len(b))
    i = 0
    while i < n and a[i] == b[i]:
        i += 1
    return " (first difference at byte %d)" % i


def diff_msg(idx, what, sent, got):
    return "channel %d %s: sent %d bytes, received %d%s" % (idx, what, len(sent), len(got), first_diff(sent, got))
