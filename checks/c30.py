"""C30 -- every SFTP request completes with exactly one well-formed response.

SFTP engine, two scenario families per run (chosen by the seed):

server: a packet-level client (harness) on a real channel speaks raw SFTP to the
  real SFTPServer: batches of well-framed requests with every command number
  0..255, valid / closed / garbage handles, every extended request name,
  check-file ranges, payloads truncated after the request id.
  Oracle: for each request id exactly one response packet carrying that id, of
  a type the protocol allows for that request (STATUS for failures); a probe
  request after each batch is answered within 5 virtual seconds.

client: the real SFTPClient runs programs interleaving pipelined writes (more
  than 100 outstanding), prefetch, readv, stat / listdir / read on a second file
  against the real, honest SFTPServer.
  Oracle: every client call returns or raises within the liveness bound."""
import os
import random
import struct

from paramiko.sftp import (CMD_INIT, CMD_VERSION, CMD_OPEN, CMD_CLOSE, CMD_READ, CMD_WRITE, CMD_LSTAT, CMD_FSTAT,
                           CMD_SETSTAT, CMD_FSETSTAT, CMD_OPENDIR, CMD_READDIR, CMD_REMOVE, CMD_MKDIR, CMD_RMDIR,
                           CMD_REALPATH, CMD_STAT, CMD_RENAME, CMD_READLINK, CMD_SYMLINK, CMD_STATUS, CMD_HANDLE,
                           CMD_DATA, CMD_NAME, CMD_ATTRS, CMD_EXTENDED, CMD_EXTENDED_REPLY)
from paramiko import SFTPServer

from sim import core, ssh
from sim.core import Violation, SimBudget, SimDeadlock
from sim.net import Link
from sim.sftpsim import SftpSession, StubSFTP, Faults

PROPERTY = "C30"
LEVEL = "exploration"
BUDGET = {"quick": {"runs": 1400, "wall": 45}, "thorough": {"runs": 60000, "wall": 570}}
RULE = ("Each run is either a raw request stream (3-6 batches of 1-12 requests: command numbers 0..255, valid/closed/"
        "garbage handles, extended names, truncated payloads) against the real SFTPServer, or a client program of 6-30 "
        "steps interleaving pipelined writes (1..40000 bytes), prefetch, readv and other requests on one session; in the "
        "server family the application callbacks raise at a per-run rate of 0/5/25 %; one client run in eight uses 32 KiB "
        "windows and a 40 MiB sparse file so that the read-ahead stalls on flow control.")
COMPONENTS = {"real": ["SFTPServer incl. _process/_check_file, SFTPHandle, SFTPClient, SFTPFile, transports, channels",
                       "scratch directory on the real filesystem"],
              "harness": ["packet-level SFTP client (server family)", "SFTPServerInterface over the scratch directory"],
              "simulated": ["socket", "clock", "scheduling", "entropy"]}
ASSUMPTIONS = ["requests are always well framed (correct length prefix, type byte and request id present); a corrupt "
               "length prefix legitimately ends the session and is outside the statement"]
T_CALL = 5.0

# request type -> response types the protocol allows
ALLOWED = {CMD_OPEN: (CMD_HANDLE, CMD_STATUS), CMD_CLOSE: (CMD_STATUS,), CMD_READ: (CMD_DATA, CMD_STATUS),
           CMD_WRITE: (CMD_STATUS,), CMD_LSTAT: (CMD_ATTRS, CMD_STATUS), CMD_FSTAT: (CMD_ATTRS, CMD_STATUS),
           CMD_SETSTAT: (CMD_STATUS,), CMD_FSETSTAT: (CMD_STATUS,), CMD_OPENDIR: (CMD_HANDLE, CMD_STATUS),
           CMD_READDIR: (CMD_NAME, CMD_STATUS), CMD_REMOVE: (CMD_STATUS,), CMD_MKDIR: (CMD_STATUS,),
           CMD_RMDIR: (CMD_STATUS,), CMD_REALPATH: (CMD_NAME, CMD_STATUS), CMD_STAT: (CMD_ATTRS, CMD_STATUS),
           CMD_RENAME: (CMD_STATUS,), CMD_READLINK: (CMD_NAME, CMD_STATUS), CMD_SYMLINK: (CMD_STATUS,),
           CMD_EXTENDED: (CMD_EXTENDED_REPLY, CMD_STATUS)}
NAMES = {CMD_OPEN: "open", CMD_CLOSE: "close", CMD_READ: "read", CMD_WRITE: "write", CMD_LSTAT: "lstat",
         CMD_FSTAT: "fstat", CMD_SETSTAT: "setstat", CMD_FSETSTAT: "fsetstat", CMD_OPENDIR: "opendir",
         CMD_READDIR: "readdir", CMD_REMOVE: "remove", CMD_MKDIR: "mkdir", CMD_RMDIR: "rmdir",
         CMD_REALPATH: "realpath", CMD_STAT: "stat", CMD_RENAME: "rename", CMD_READLINK: "readlink",
         CMD_SYMLINK: "symlink", CMD_EXTENDED: "extended"}
EXT_NAMES = ("check-file", "posix-rename@openssh.com", "statvfs@openssh.com", "fsync@openssh.com",
             "hardlink@openssh.com", "md5-hash", "", "check-file-handle", "limits@openssh.com")


def sim_kw(seed):
    return {"max_steps": 4_000_000, "max_time": 3600.0}


def s_(x):
    if isinstance(x, str):
        x = x.encode()
    return struct.pack(">I", len(x)) + x


def u32(n):
    return struct.pack(">I", n & 0xffffffff)


def u64(n):
    return struct.pack(">Q", n & 0xffffffffffffffff)


def attrs(size=None, mode=None, times=None, uidgid=None):
    flags = (1 if size is not None else 0) | (2 if uidgid else 0) | (4 if mode is not None else 0) | (8 if times else 0)
    out = u32(flags)
    if size is not None:
        out += u64(size)
    if uidgid:
        out += u32(uidgid[0]) + u32(uidgid[1])
    if mode is not None:
        out += u32(mode)
    if times:
        out += u32(times[0]) + u32(times[1])
    return out


class Raw:
    """Packet-level SFTP client over a channel."""

    def __init__(self, sim, chan):
        self.sim = sim
        self.chan = chan
        self.buf = b""

    def send(self, t, payload):
        self.chan.sendall(struct.pack(">I", len(payload) + 1) + bytes([t]) + payload)

    def recv(self, timeout):
        """-> (type, payload) or None on timeout / EOF"""
        end = self.sim.now + timeout
        while True:
            if len(self.buf) >= 4:
                n = struct.unpack(">I", self.buf[:4])[0]
                if len(self.buf) >= 4 + n:
                    pkt = self.buf[4:4 + n]
                    self.buf = self.buf[4 + n:]
                    return (pkt[0], pkt[1:]) if n else (0, b"")
            left = end - self.sim.now
            if left <= 0:
                return None
            self.chan.settimeout(left)
            try:
                x = self.chan.recv(65536)
            except Exception:
                return None
            if not x:
                return None
            self.buf += x


# ---------------------------------------------------------------- server family
def scenario(sim):
    fam = ("server", "server", "server", "client", "client")[sim.choose(5)]
    sim.c30 = {"fam": fam, "what": None}
    if fam == "server":
        return server_family(sim)
    if sim.choose(8) == 0:
        return client_family(sim, stalled=True)
    return client_family(sim)


def server_family(sim):
    sim.spin_limit = 4.0
    sim.p_switch = (0.02, 0.1)[sim.choose(2)]
    root = None
    link = Link(sim, latency=((0.0, 0.0), (0.002, 0.002))[sim.choose(2)])
    p = ssh.Pair(sim, link=link)
    import tempfile
    import shutil
    root = tempfile.mkdtemp(prefix="verif-sftp-")
    sim.cleanup.append(lambda: shutil.rmtree(root, ignore_errors=True))
    faults = Faults(sim)
    # the application behind the server fails now and then (a handle's close() reporting a late ENOSPC, a
    # callback raising instead of returning a status): still exactly one answer per request
    faults.p_raise = (0.0, 0.0, 0.05, 0.25)[sim.choose(4)]
    r = sim.payload

    class Stub(StubSFTP):
        ROOT = root
    Stub.faults = faults
    for name, size in (("a.bin", 1000), ("b.bin", 70000), ("empty", 0)):
        with open(os.path.join(root, name), "wb") as f:
            f.write(r.randbytes(size))
    os.mkdir(os.path.join(root, "d"))
    for i in range(20):
        open(os.path.join(root, "d", "f%02d" % i), "wb").close()
    p.ts.set_subsystem_handler("sftp", SFTPServer, Stub)
    p.start(timeout=60)
    p.wait_server()
    p.auth_password()
    ch = p.tc.open_session()
    ch.invoke_subsystem("sftp")
    raw = Raw(sim, ch)
    raw.send(CMD_INIT, u32(3))
    v = raw.recv(T_CALL)
    if v is None or v[0] != CMD_VERSION:
        raise Violation(("C30", "no-version-reply"), "INIT was answered by %r" % (v,))
    st = {"handles": [], "dirs": [], "closed": [], "next_id": 1 + sim.choose(1000)}
    trace = []
    counts = set()
    try:
        for b in range(3 + sim.choose(4)):
            batch = [gen_request(sim, st) for _ in range(1 + sim.choose(12))]
            run_batch(sim, raw, st, batch, trace, counts)
    finally:
        p.close()
    return {"sample": {"family": "server", "requests": trace[:12]}, "nontrivial": True,
            "case_key": "|".join(trace), "counts": sorted(counts)}


def new_id(sim, st):
    st["next_id"] += 1 + sim.choose(1000)
    if sim.choose(20) == 0:
        st["next_id"] = (st["next_id"] + 0x7fffff00) & 0xffffffff
    return st["next_id"]


def pick_handle(sim, st, dirs=False):
    """-> (handle bytes, kind)"""
    k = sim.choose(6)
    pool = st["dirs"] if dirs else st["handles"]
    if k < 3 and pool:
        return pool[sim.choose(len(pool))], "valid"
    if k == 3 and st["closed"]:
        return st["closed"][sim.choose(len(st["closed"]))], "closed"
    if k == 4:
        other = st["handles"] if dirs else st["dirs"]
        if other:
            return other[sim.choose(len(other))], "wrong-kind"
    return (b"", b"hx0", b"\xff\xfe", b"hx999999", b"A" * 300)[sim.choose(5)], "garbage"


PATHS = ("a.bin", "b.bin", "empty", "d", "d/f00", "nope", "", "/", "../x", "d/../a.bin", "new1", "new2", "\xff\xfe")


def gen_request(sim, st):
    """-> dict(id, t, payload, desc)"""
    rid = new_id(sim, st)
    k = sim.choose(24)
    path = PATHS[sim.choose(len(PATHS))]
    pb = path.encode("latin-1")
    if k == 0:
        t = sim.choose(256)          # any command number, random payload
        while t in (CMD_INIT,) and False:
            t = sim.choose(256)
        body = sim.payload.randbytes(sim.choose(40))
        desc = "cmd%d-random" % t if t not in NAMES else NAMES[t] + "-random"
    elif k == 1:
        t = (0, 2, 7 + 200, 21, 22, 50, 99, 100, 101, 102, 103, 104, 105, 150, 199, 201, 202, 255)[sim.choose(18)]
        body = b""
        desc = "cmd%d-empty" % t
    elif k == 2:
        t = sorted(NAMES)[sim.choose(len(NAMES))]
        body = b""                  # payload truncated right after the request id
        desc = NAMES[t] + "-truncated"
    elif k in (3, 4):
        t = CMD_OPEN
        pflags = (1, 2, 3, 0x1a, 0x0a, 0x2a, 0, 0x3f)[sim.choose(8)]
        body = s_(pb) + u32(pflags) + attrs()
        desc = "open"
    elif k == 5:
        t = CMD_CLOSE
        h, hk = pick_handle(sim, st, dirs=bool(sim.choose(2)))
        body = s_(h)
        desc = "close-" + hk
        if hk == "valid":
            for pool in (st["handles"], st["dirs"]):
                if h in pool:
                    pool.remove(h)
            st["closed"].append(h)
    elif k in (6, 7):
        t = CMD_READ
        h, hk = pick_handle(sim, st)
        body = s_(h) + u64((0, 10, 999, 1000, 70000, 1 << 40)[sim.choose(6)]) + u32((0, 1, 100, 32768, 1 << 20)[sim.choose(5)])
        desc = "read-" + hk
    elif k == 8:
        t = CMD_WRITE
        h, hk = pick_handle(sim, st)
        body = s_(h) + u64((0, 5, 2000)[sim.choose(3)]) + s_(sim.payload.randbytes((0, 1, 100)[sim.choose(3)]))
        desc = "write-" + hk
    elif k == 9:
        t = (CMD_STAT, CMD_LSTAT)[sim.choose(2)]
        body = s_(pb)
        desc = NAMES[t]
    elif k == 10:
        t = CMD_FSTAT
        h, hk = pick_handle(sim, st)
        body = s_(h)
        desc = "fstat-" + hk
    elif k == 11:
        t = CMD_SETSTAT
        body = s_(pb) + attrs(mode=0o644 if sim.choose(2) else None, times=(1, 2) if sim.choose(2) else None)
        desc = "setstat"
    elif k in (12, 13):
        t = CMD_FSETSTAT
        h, hk = pick_handle(sim, st)
        body = s_(h) + attrs(mode=0o600 if sim.choose(2) else None, size=(None, 10)[sim.choose(2)])
        desc = "fsetstat-" + hk
    elif k == 14:
        t = CMD_OPENDIR
        body = s_(pb)
        desc = "opendir"
    elif k in (15, 16):
        t = CMD_READDIR
        h, hk = pick_handle(sim, st, dirs=True)
        body = s_(h)
        desc = "readdir-" + hk
    elif k == 17:
        t = (CMD_REMOVE, CMD_RMDIR, CMD_MKDIR, CMD_REALPATH, CMD_READLINK)[sim.choose(5)]
        body = s_(("new1", "new2", "nope", "d", "")[sim.choose(5)]) + (attrs() if t == CMD_MKDIR else b"")
        desc = NAMES[t]
    elif k == 18:
        t = (CMD_RENAME, CMD_SYMLINK)[sim.choose(2)]
        body = s_(("new1", "nope", "a.bin")[sim.choose(3)]) + s_(("new2", "new1", "d/zz")[sim.choose(3)])
        desc = NAMES[t]
    elif k in (19, 20, 21):
        t = CMD_EXTENDED
        h, hk = pick_handle(sim, st)
        alg = ("md5", "sha1", "md5,sha1", "sha256", "", "crc32,md5")[sim.choose(6)]
        start = (0, 10, 999, 1000, 1001, 70000, 100000, 1 << 33)[sim.choose(8)]
        length = (0, 1, 256, 1000, 65536, 70000, 1 << 20, 1 << 33)[sim.choose(8)]
        block = (0, 1, 255, 256, 1000, 65536, 100000)[sim.choose(7)]
        body = s_("check-file") + s_(h) + s_(alg) + u64(start) + u64(length) + u32(block)
        desc = "check-file-" + hk
    else:
        t = CMD_EXTENDED
        name = EXT_NAMES[sim.choose(len(EXT_NAMES))]
        body = s_(name) + (s_("a.bin") + s_("new2") if sim.choose(2) else sim.payload.randbytes(sim.choose(12)))
        desc = "extended-" + (name.split("@")[0] or "noname")
    return {"id": rid, "t": t, "payload": u32(rid) + body, "desc": desc}


def run_batch(sim, raw, st, batch, trace, counts):
    for q in batch:
        raw.send(q["t"], q["payload"])
        trace.append(q["desc"])
        counts.add(q["desc"].split("-")[0] if not q["desc"].startswith("cmd") else "unknown-command")
    # a well-formed probe request closes the batch: once it is answered everything before it has been processed
    probe_id = (st["next_id"] + 7777) & 0xffffffff
    st["next_id"] = probe_id
    raw.send(CMD_REALPATH, u32(probe_id) + s_("."))
    expect = {q["id"]: q for q in batch}
    seen = {}
    order = []
    t0 = sim.now
    while True:
        sim.c30["what"] = "batch " + " ".join(q["desc"] for q in batch)
        pkt = raw.recv(T_CALL + 0.5 * len(batch))
        if pkt is None:
            missing = [q["desc"] for q in batch if q["id"] not in seen]
            raise Violation(("C30", "server-stopped-answering", missing[0] if missing else "probe"),
                            "no response for %.1f virtual seconds; unanswered: %s (batch: %s)"
                            % (sim.now - t0, missing or ["the closing probe"], [q["desc"] for q in batch]),
                            {"batch": [q["desc"] for q in batch]})
        t, body = pkt
        rid = struct.unpack(">I", body[:4])[0] if len(body) >= 4 else None
        if rid == probe_id:
            break
        order.append((t, rid))
        q = expect.get(rid)
        if q is None:
            raise Violation(("C30", "response-with-unknown-id", str(t)),
                            "response type %d carries id %r which no outstanding request has (batch: %s)"
                            % (t, rid, [(x["desc"], x["id"]) for x in batch]), {"batch": [x["desc"] for x in batch]})
        if rid in seen:
            raise Violation(("C30", "second-response", q["desc"]),
                            "request %s (id %d) was answered twice: types %d and %d" % (q["desc"], rid, seen[rid], t),
                            {"batch": [x["desc"] for x in batch]})
        seen[rid] = t
        allowed = ALLOWED.get(q["t"], (CMD_STATUS,))
        if t not in allowed:
            raise Violation(("C30", "response-type-not-allowed", q["desc"], str(t)),
                            "request %s (type %d, id %d) was answered with packet type %d; allowed: %s"
                            % (q["desc"], q["t"], rid, t, list(allowed)), {"batch": [x["desc"] for x in batch]})
        if not well_formed(t, body):
            raise Violation(("C30", "malformed-response", q["desc"], str(t)),
                            "request %s was answered with a malformed type-%d packet: %r" % (q["desc"], t, body[:40]),
                            {"batch": [x["desc"] for x in batch]})
        if t == CMD_HANDLE:
            h = parse_string(body, 4)[0]
            (st["dirs"] if q["t"] == CMD_OPENDIR else st["handles"]).append(h)
        sim.probe("responses")
        sim.probe("resp_%d" % t)
    missing = [q["desc"] for q in batch if q["id"] not in seen]
    if missing:
        raise Violation(("C30", "request-never-answered", missing[0]),
                        "the probe sent after the batch was answered but these requests never were: %s" % missing,
                        {"batch": [x["desc"] for x in batch]})
    sim.probe("batches")


def parse_string(b, i):
    if len(b) < i + 4:
        return None, None
    n = struct.unpack(">I", b[i:i + 4])[0]
    if len(b) < i + 4 + n:
        return None, None
    return b[i + 4:i + 4 + n], i + 4 + n


def well_formed(t, body):
    """Structural check of a response packet body (id first)."""
    if len(body) < 4:
        return False
    if t == CMD_STATUS:
        if len(body) < 8:
            return False
        msg, j = parse_string(body, 8)
        if msg is None:
            return False
        lang, j2 = parse_string(body, j)
        return lang is not None and j2 == len(body)
    if t in (CMD_HANDLE, CMD_DATA):
        x, j = parse_string(body, 4)
        return x is not None and j == len(body)
    if t == CMD_NAME:
        return len(body) >= 8
    if t == CMD_ATTRS:
        return len(body) >= 8
    if t == CMD_EXTENDED_REPLY:
        return True
    return True


# ---------------------------------------------------------------- client family
def client_family(sim, stalled=False):
    sim.p_switch = (0.02, 0.1, 0.3)[sim.choose(3)]
    if stalled:
        # smallest flow-control windows on both sides and a file large enough that the read-ahead requests alone
        # overflow the server's window: the read-ahead thread and the server both sit blocked in a send until the
        # application reads (the file is sparse; only a few chunks ever cross the link)
        small = {"default_window_size": 32768}
        s = SftpSession(sim, latency=(0.0, 0.002)[sim.choose(2)], pair_kw={"client_kw": small, "server_kw": small})
        with open(s.rpath("huge.bin"), "wb") as f:
            f.truncate(40 << 20)
    else:
        s = SftpSession(sim, latency=(0.0, 0.002, 0.02)[sim.choose(3)])
    r = sim.payload
    s.put_both("big.bin", r.randbytes((70000, 200000, 400000)[sim.choose(3)]))
    s.put_both("small.bin", r.randbytes(5000))
    os.mkdir(s.rpath("dir"))
    for i in range(25):
        open(os.path.join(s.rpath("dir"), "n%02d" % i), "wb").close()
    steps = []
    files = {}
    counts = set()

    def stalled_program():
        def open_prefetch():
            f = s.sftp.open("huge.bin", "rb")
            f.prefetch(40 << 20)
            files["p"] = f
        step("open+prefetch", open_prefetch)
        step("pause", lambda: sim.sleep((1.0, 5.0)[sim.choose(2)]))
        f = files["p"]
        if f._prefetch_threads and 0 < len(f._prefetch_extents) < 1280:
            sim.probe("readahead_thread_blocked_mid_way")
        sim.c30["sent"] = len(f._prefetch_extents)
        for _ in range(1 + sim.choose(3)):
            step("read-prefetched", lambda: files["p"].read((1024, 40000)[sim.choose(2)]))
        sim.probe("read_with_both_windows_full")
        # any further request while the read-ahead is still stalled (nobody reads responses now)
        k = sim.choose(3)
        if k == 0:
            step("stalled-close", lambda: files.pop("p").close())
        elif k == 1:
            step("stalled-stat", lambda: s.sftp.stat("huge.bin"))
        else:
            step("stalled-open", lambda: s.sftp.open("huge.bin", "rb").close())

    def program():
        if stalled:
            return stalled_program()
        wf = s.sftp.open("out.bin", "wb")
        wf.set_pipelined(True)
        files["w"] = wf
        n = 6 + sim.choose(25)
        for i in range(n):
            k = sim.choose(15)
            if k == 12:
                def listdir_iter():
                    ra = (1, 3, 50)[sim.choose(3)]
                    names = sorted(a.filename for a in s.sftp.listdir_iter("dir", read_aheads=ra))
                    if names != ["n%02d" % j for j in range(25)]:
                        raise Violation(("C30", "listdir_iter-wrong-names"),
                                        "listdir_iter(read_aheads=%d) yielded %d names: %s" % (ra, len(names), names[:6]), {"steps": steps})
                step("listdir_iter", listdir_iter)
            elif k == 13:
                def listdir_iter_abandoned():
                    it = s.sftp.listdir_iter("dir", read_aheads=(2, 50)[sim.choose(2)])
                    next(it)
                    it.close()
                step("listdir_iter-abandoned", listdir_iter_abandoned)
            elif k == 14:
                def name_ops():
                    c = s.sftp
                    c.mkdir("sub")
                    c.rename("small.bin", "sub/moved.bin")
                    c.lstat("sub/moved.bin")
                    c.posix_rename("sub/moved.bin", "small.bin")
                    c.symlink("small.bin", "lnk")
                    c.readlink("lnk")
                    c.normalize(".")
                    c.remove("lnk")
                    c.rmdir("sub")
                step("name-ops", name_ops)
            elif k < 4:
                cnt = (1, 20, 120, 250)[sim.choose(4)]
                sz = (1, 10, 1000, 40000)[sim.choose(4)]     # 40000: one SFTP packet leaves in several channel sends
                if sz == 40000:
                    cnt = min(cnt, 20)
                step("pipelined-writes x%d%s" % (cnt, " big" if sz == 40000 else ""),
                     lambda: [wf.write(b"x" * sz) for _ in range(cnt)])
            elif k == 4:
                step("stat", lambda: s.sftp.stat("small.bin"))
            elif k == 5:
                step("listdir", lambda: s.sftp.listdir("dir"))
            elif k == 6:
                def open_prefetch():
                    f = s.sftp.open("big.bin", "rb")
                    f.prefetch(None, (None, 1, 4)[sim.choose(3)])
                    files["p"] = f
                step("open+prefetch", open_prefetch)
            elif k == 7 and "p" in files:
                step("read-prefetched", lambda: files["p"].read((1, 40000, 100000)[sim.choose(3)]))
            elif k == 8 and "p" in files:
                step("seek+read-prefetched", lambda: (files["p"].seek(sim.choose(200000)), files["p"].read(5000)))
            elif k == 9:
                def readv():
                    f = s.sftp.open("big.bin", "rb")
                    list(f.readv([(sim.choose(60000), 1 + sim.choose(40000)) for _ in range(1 + sim.choose(4))]))
                    f.close()
                step("readv", readv)
            elif k == 10:
                def other_file():
                    f = s.sftp.open("small.bin", "rb")
                    f.read(100)
                    f.close()
                step("second-file-read", other_file)
            elif k == 11 and "p" in files:
                step("close-prefetched", lambda: files.pop("p").close())
            else:
                step("flush", wf.flush)
        step("close-pipelined", wf.close)
        if "p" in files:
            step("close-prefetched", lambda: files.pop("p").close())

    cur = {"name": None, "t0": 0.0, "i": 0}

    def step(name, fn):
        cur["name"], cur["t0"] = name, sim.now
        cur["i"] += 1
        steps.append(name)
        counts.add(name.split(" ")[0])
        sim.c30["what"] = "client step %d %s after %s" % (cur["i"], name, steps[-4:-1])
        sim.c30["step"] = name
        fn()
        cur["name"] = None
        sim.probe("client_steps")

    box = {}

    def run():
        try:
            program()
            box["ok"] = True
        except Exception as e:
            box["exc"] = e

    task = sim.spawn(run, "client-program")
    try:
        # every single step has to finish within the bound: poll
        last_events, last_change = sim.nevents, sim.now
        while task.state != core.DONE:
            sim.join_task(task, 1.0)
            if sim.nevents != last_events:
                last_events, last_change = sim.nevents, sim.now     # packets still flow: slow is not stuck
            if task.state != core.DONE and cur["name"] is not None and sim.now - max(cur["t0"], last_change) > T_CALL + 10.0:
                fp = ("C30", "client-call-never-returns", cur["name"].split(" ")[0], core.where_parked(task))
                if cur["name"].startswith("stalled-"):
                    fp = ("C30", "client-call-never-returns", "readahead-stalled", cur["name"])
                raise Violation(fp,
                                "client step %d (%s) has been blocked for %.0f virtual seconds although the server answers "
                                "every request; earlier steps: %s; parked in %s"
                                % (cur["i"], cur["name"], sim.now - cur["t0"], steps[-6:-1], core.where_parked(task)),
                                {"steps": steps})
        if "exc" in box:
            raise Violation(("C30", "client-call-failed", type(box["exc"]).__name__, (cur["name"] or "?").split(" ")[0]),
                            "client step %s raised %r against an honest server; steps: %s" % (cur["name"], box["exc"], steps[-6:]),
                            {"steps": steps})
    finally:
        s.close()
    return {"sample": {"family": "client", "steps": steps[:15]}, "nontrivial": True, "case_key": "|".join(steps),
            "counts": sorted(counts)}


def on_hang(sim, exc):
    info = getattr(sim, "c30", None)
    if not info:
        return None
    msg = str(exc)
    if "budget exceeded: steps" in msg:
        return None
    where = "?"
    if sim.spin_info:
        frames = [f for f in sim.spin_info[1] if f.startswith("sftp")]
        where = (frames[0].split(":")[0] + ":" + frames[0].split(":")[-1]) if frames else "?"
    if info["fam"] == "server":
        return Violation(("C30", "server-stopped-answering", "spin", where),
                         "the server thread loops without answering (%s) during %s: %s" % (where, info["what"], msg[:100]))
    for t in sim.tasks:
        if t.name == "client-program" and t.state != core.DONE:
            where = core.where_parked(t)
    if info.get("step", "").startswith("stalled-"):
        return Violation(("C30", "client-call-never-returns", "readahead-stalled", info["step"]),
                         "%s: %s (client parked in %s)" % (info["what"], msg[:100], where))
    return Violation(("C30", "client-call-never-returns", "deadlock", where),
                     "%s: %s (client parked in %s)" % (info["what"], msg[:100], where))
