"""C17 -- client credentials are only sent to a verified, accepted server.

LINK engine with a recording server and a passive wiretap.
 (A) Transport.auth_* called from a task at every point of the connection
     lifecycle (before start_client, racing the initial exchange, during a
     re-key, after close), optionally with a man-in-the-middle corrupting the
     host-key signature of the first exchange.
 (B) Transport.connect(hostkey=X, ...) against a server holding X, another key
     of the same type, or a key of another type.
 (C) SSHClient.connect(..., sock=<simulated>) with generated known_hosts files
     (same key / other key same type / only other types / hashed / [host]:port
     entries, system vs user file) x policy {Reject, AutoAdd, Warning, custom
     accept, custom raise}.
Oracle: a USERAUTH_REQUEST carrying a password or signature, or an
INFO_RESPONSE, appears on the wire only encrypted, only after an exchange whose
signature verifies independently, and -- where the reference host-key decision
is reject -- never; then connect must raise."""
import os
import warnings
import shutil
import struct
import tempfile

import paramiko
from paramiko import SSHClient, Transport
from paramiko.client import AutoAddPolicy, RejectPolicy, WarningPolicy, MissingHostKeyPolicy
from paramiko.hostkeys import HostKeys
from paramiko.ssh_exception import SSHException

from sim import ssh, wiretap, kexoracle, core
from sim.core import Violation
from sim.net import Link
from sim.wiretap import Reader

warnings.filterwarnings("ignore", message="Unknown .* host key")
PROPERTY = "C17"
LEVEL = "exploration"
BUDGET = {"quick": {"runs": 1500, "wall": 55}, "thorough": {"runs": 50000, "wall": 570}}
RULE = ("Seed index walks sub-scenario A/B/C; A: lifecycle point x credential kind x optional signature-corrupting MITM; "
        "B: expected host key relation x credential kind; C: known_hosts shape x file (system/user) x hashed x port x "
        "policy x credential kind; schedules and latency from the seed.")
COMPONENTS = {"real": ["client Transport / SSHClient / HostKeys / policies unmodified", "server Transport with recording application"],
              "simulated": ["socket", "clock", "scheduling", "entropy"], "real-io": ["known_hosts scratch files under a per-run temp dir"]}
ASSUMPTIONS = ["SSHClient is given sock=, look_for_keys=False, allow_agent=False, so DNS, ~/.ssh and a real agent are never touched"]
SECRET = "s3cret-%d"


def sim_kw(seed):
    return {"max_steps": 3_000_000, "max_time": 3600.0}


class CredServer(ssh.ScriptedServer):
    def __init__(self, sim, secret, keys):
        ssh.ScriptedServer.__init__(self, sim, allowed_keys=keys)
        self.secret = secret

    def check_auth_password(self, username, password):
        self._rec("auth_password", username, password)
        return paramiko.AUTH_SUCCESSFUL if password == self.secret else paramiko.AUTH_FAILED

    def get_allowed_auths(self, username):
        return "password,publickey,keyboard-interactive"

    def check_auth_interactive(self, username, submethods):
        self._rec("auth_interactive", username)
        q = paramiko.InteractiveQuery("t", "i")
        q.add_prompt("Password:", False)
        return q

    def check_auth_interactive_response(self, responses):
        self._rec("auth_interactive_response", list(responses))
        return paramiko.AUTH_SUCCESSFUL if responses == [self.secret] else paramiko.AUTH_FAILED


def credentials_on_wire(tap):
    """List of (direction epoch, packet) for client->server packets carrying credentials."""
    out = []
    for d, pk in tap.log:
        if d != 0 or not pk.payload:
            continue
        t = pk.payload[0]
        if t == 61:
            out.append((pk.epoch, "info-response"))
        elif t == 50:
            try:
                r = Reader(pk.payload); r.byte(); r.string(); r.string()
                method = r.string()
                if method == b"password":
                    out.append((pk.epoch, "password"))
                elif method == b"publickey" and r.boolean():
                    out.append((pk.epoch, "publickey-signature"))
                elif method in (b"none", b"keyboard-interactive") or method == b"publickey":
                    out.append((pk.epoch, "request-" + method.decode()))
            except Exception:
                out.append((pk.epoch, "unparseable-50"))
    return out


def first_signature_ok(tap):
    exs = kexoracle.parse_exchanges(tap)
    if not exs or not tap.kh[0]:
        return False
    rf = kexoracle.reply_fields(exs[0])
    if rf is None:
        return False
    K, H = tap.kh[0][0]
    if kexoracle.exchange_hash(exs[0], tap.banner[0], tap.banner[1], K, rf) != H:
        return False
    return kexoracle.verify_sig(rf["K_S"], rf["sig"], H)[0]


def judge(sim, tap, server, accept, desc, secret, where):
    creds = credentials_on_wire(tap)
    real = [c for c in creds if c[1] in ("password", "publickey-signature", "info-response")]
    anyauth = creds
    for epoch, kind in anyauth:
        if epoch == 0:
            raise Violation(("C17", "auth-message-in-cleartext", kind, where), "%s sent before encryption was on" % kind, desc)
    if real and not first_signature_ok(tap):
        raise Violation(("C17", "credentials-without-verified-host-key", real[0][1], where),
                        "%s sent although the first exchange's signature does not verify" % real[0][1], desc)
    if not accept:
        if anyauth:
            raise Violation(("C17", "auth-message-to-rejected-server", anyauth[0][1], where),
                            "client sent %s although the server's host key had to be rejected (%s)" % ([k for _, k in anyauth], where), desc)
        seen = [e for e in server.log if e[2].startswith("auth")]
        if seen:
            raise Violation(("C17", "server-saw-credentials", where), "recording server saw %r" % (seen[0][2:],), desc)
    for e in server.log:
        if e[2] == "auth_password" and secret in e[2:] and not accept:
            raise Violation(("C17", "password-leaked", where), "password reached a server that had to be rejected", desc)


def scenario(sim):
    sim.p_switch = (0.02, 0.2)[sim.choose(2)]
    sub = sim.seed % 3
    secret = SECRET % sim.seed
    if sub == 0:
        return lifecycle(sim, secret)
    if sub == 1:
        return transport_connect(sim, secret)
    return sshclient(sim, secret)


# ---------------------------------------------------------------- (A)
def do_auth(t, kind, secret, ukey):
    if kind == "password":
        return t.auth_password("alice", secret, fallback=False)
    if kind == "publickey":
        return t.auth_publickey("alice", ukey)
    return t.auth_interactive("alice", lambda title, instr, prompts: [secret for _ in prompts])


def lifecycle(sim, secret):
    point = ("before-start", "racing-initial-kex", "during-rekey", "after-close", "normal")[sim.choose(5)]
    kind = ("password", "publickey", "interactive")[sim.choose(3)]
    mitm = sim.choose(3) == 0 and point in ("racing-initial-kex", "normal")
    lat = (0.0, 0.01, 0.1)[sim.choose(3)]
    link = Link(sim, latency=(lat, lat))
    ukey = ssh.key("ed25519_2")
    server = CredServer(sim, secret, [ukey])
    plog = []
    kw = {}
    if mitm:
        def mutate_out(pk, payload):
            if payload[0] == 31 and len(payload) > 60 and not st.get("done"):
                st["done"] = True
                sim.fault("host_key_signature_corrupted")
                return [payload[:-3] + bytes([payload[-3] ^ 0x40]) + payload[-2:]]
            return [payload]
        st = {}
        kw["server_pk"] = ssh.byzantine_packetizer("s", plog, mutate_out=mutate_out)
    p = ssh.tapped_pair(sim, link=link, server=server, plog=plog, **kw)
    ssh.configure(p.tc, kex="curve25519-sha256@libssh.org")
    desc = {"sub": "A", "point": point, "credential": kind, "mitm_corrupts_signature": mitm}
    errs = []

    def attempt():
        try:
            do_auth(p.tc, kind, secret, ukey)
        except Exception as e:
            errs.append(e)

    if point == "before-start":
        attempt()
        try:
            p.start(timeout=30)
        except Exception as e:
            errs.append(e)
    elif point == "racing-initial-kex":
        tasks = [sim.spawn(attempt, "auth%d" % i) for i in range(1 + sim.choose(2))]
        try:
            p.start(timeout=30)
        except Exception as e:
            errs.append(e)
        for t in tasks:
            sim.join_task(t, 60)
        attempt()
    elif point == "during-rekey":
        p.start(timeout=30)
        p.wait_server()
        t1 = sim.spawn(lambda: p.tc.renegotiate_keys(), "rekey")
        if sim.choose(2):
            sim.sleep((0.0, lat, 2 * lat)[sim.choose(3)])
        attempt()
        sim.join_task(t1, 60)
    elif point == "after-close":
        p.start(timeout=30)
        p.wait_server()
        p.tc.close()
        attempt()
    else:
        try:
            p.start(timeout=30)
            p.wait_server()
        except Exception as e:
            errs.append(e)
        attempt()
    ssh.quiesce(sim, [link], (), settle=0.2, limit=20)
    judge(sim, p.tap, server, accept=not mitm, desc=desc, secret=secret, where="A:" + point)
    if point == "normal" and not mitm and not p.tc.is_authenticated():
        raise Violation(("C17", "honest-auth-failed", point, kind), "honest authentication failed: %r" % (errs[-1:] or None), desc)
    if point == "normal" and not mitm:
        sim.probe("honest_auth_ok")
    if point == "during-rekey":
        # authenticating while a re-exchange is running is outside this property (auth messages are
        # sent unconditionally and a peer inside the exchange refuses them); only counted
        sim.probe("auth_during_rekey_" + ("ok" if p.tc.is_authenticated() else "failed"))
    p.close()
    return {"sample": desc, "nontrivial": True, "counts": ["A:" + point]}


# ---------------------------------------------------------------- (B)
def transport_connect(sim, secret):
    relation = ("same", "other-key-same-type", "other-type")[sim.choose(3)]
    ktype = ("rsa", "ecdsa256", "ed25519")[sim.choose(3)]
    held = {"rsa": "rsa1", "ecdsa256": "ecdsa256_1", "ed25519": "ed25519_1"}[ktype]
    if relation == "same":
        expected = ssh.key(held)
    elif relation == "other-key-same-type":
        expected = ssh.key({"rsa": "rsa2", "ecdsa256": "ecdsa256_2", "ed25519": "ed25519_2"}[ktype])
    else:
        expected = ssh.key({"rsa": "ed25519_2", "ecdsa256": "rsa2", "ed25519": "ecdsa256_2"}[ktype])
    kind = ("password", "publickey")[sim.choose(2)]
    ukey = ssh.key("ecdsa384_1")
    server = CredServer(sim, secret, [ukey])
    link = Link(sim, latency=((0.0, 0.01)[sim.choose(2)],) * 2)
    # the server also holds a key of the expected type when that differs, so negotiation can succeed
    hk = [held]
    if relation == "other-type":
        hk.append({"rsa": "ed25519_1", "ecdsa256": "rsa1", "ed25519": "ecdsa256_1"}[ktype])
    p = ssh.tapped_pair(sim, link=link, server=server, host_keys=tuple(hk))
    desc = {"sub": "B", "relation": relation, "key_type": ktype, "credential": kind}
    from sim.shims import Event
    p.server_event = Event()
    p.ts.start_server(event=p.server_event, server=server)
    err = None
    try:
        if kind == "password":
            p.tc.connect(hostkey=expected, username="alice", password=secret)
        else:
            p.tc.connect(hostkey=expected, username="alice", pkey=ukey)
    except Exception as e:
        err = e
    ssh.quiesce(sim, [link], (), settle=0.2, limit=20)
    accept = relation == "same"
    judge(sim, p.tap, server, accept, desc, secret, "B:" + relation)
    if not accept and err is None:
        raise Violation(("C17", "connect-did-not-raise", "B", relation), "Transport.connect returned normally although the host key differs", desc)
    if accept and not p.tc.is_authenticated():
        raise Violation(("C17", "honest-connect-failed", "B"), "connect with the right host key failed: %r" % (err,), desc)
    p.close()
    return {"sample": desc, "nontrivial": True, "counts": ["B:" + relation]}


# ---------------------------------------------------------------- (C)
class AcceptPolicy(MissingHostKeyPolicy):
    def missing_host_key(self, client, hostname, key):
        return


class RaisePolicy(MissingHostKeyPolicy):
    def missing_host_key(self, client, hostname, key):
        raise SSHException("policy says no")


POLICIES = {"reject": (RejectPolicy, False), "autoadd": (AutoAddPolicy, True), "warning": (WarningPolicy, True),
            "custom-accept": (AcceptPolicy, True), "custom-raise": (RaisePolicy, False)}
SHAPES = ("none", "same", "other-key-same-type", "only-other-types", "same-plus-other-type", "other-host-only",
          "default-port-entry-only", "same-under-port-name", "other-key-on-later-multi-name-line", "same-on-multi-name-line")


def sshclient(sim, secret):
    shape = SHAPES[sim.choose(len(SHAPES))]
    polname = list(POLICIES)[sim.choose(len(POLICIES))]
    hashed = bool(sim.choose(2))
    system_file = bool(sim.choose(2))
    port = (22, 22, 2222)[sim.choose(3)]
    kind = ("password", "publickey")[sim.choose(2)]
    ktype = ("rsa", "ecdsa256", "ed25519")[sim.choose(3)]
    held = {"rsa": "rsa1", "ecdsa256": "ecdsa256_1", "ed25519": "ed25519_1"}[ktype]
    other_same = {"rsa": "rsa2", "ecdsa256": "ecdsa256_2", "ed25519": "ed25519_2"}[ktype]
    other_type = {"rsa": "ed25519_2", "ecdsa256": "rsa2", "ed25519": "ecdsa256_2"}[ktype]
    host = "server.example.com"
    name = host if port == 22 else "[%s]:%d" % (host, port)
    entries = []      # (name, key)
    if shape == "same":
        entries.append((name, ssh.key(held)))
    elif shape == "other-key-same-type":
        entries.append((name, ssh.key(other_same)))
    elif shape == "only-other-types":
        entries.append((name, ssh.key(other_type)))
    elif shape == "same-plus-other-type":
        entries.append((name, ssh.key(other_type)))
        entries.append((name, ssh.key(held)))
    elif shape == "other-host-only":
        entries.append(("elsewhere.example.com", ssh.key(held)))
    elif shape == "default-port-entry-only":
        entries.append((host, ssh.key(held)))            # matches only when port == 22
    elif shape == "same-under-port-name":
        entries.append(("[%s]:2222" % host, ssh.key(held)))   # matches only when port == 2222
    elif shape == "other-key-on-later-multi-name-line":
        # an alias is listed alone first; a later line lists the alias AND the name we connect to, with the same
        # (different-from-the-server's) key: the name is known, with another key
        hashed = False
        entries.append(("alias.example.com", ssh.key(other_same)))
        entries.append(("alias.example.com," + name, ssh.key(other_same)))
    elif shape == "same-on-multi-name-line":
        hashed = False
        entries.append(("alias.example.com", ssh.key(held)))
        entries.append(("alias.example.com,%s,10.9.8.7" % name, ssh.key(held)))
    # reference decision
    matching = [k for n, k in entries if name in n.split(",")]
    if matching:
        accept = any(k.get_name() == ssh.key(held).get_name() and k.asbytes() == ssh.key(held).asbytes() for k in matching)
        decided_by = "known_hosts"
    else:
        accept = POLICIES[polname][1]
        decided_by = "policy"
    warmup = bool(sim.choose(2))
    if warmup:
        entries.append(("first.example.com", ssh.key(held)))
    tmp = tempfile.mkdtemp(prefix="verif-c17-")
    sim.cleanup.append(lambda: shutil.rmtree(tmp, ignore_errors=True))
    path = os.path.join(tmp, "known_hosts")
    # a hashed line damaged by hand editing (salt not base64 / not 20 bytes) in front of everything else.  Either
    # the lookup fails as a whole (nothing is sent) or the line is skipped and the other entries decide as usual;
    # what must not happen is that the entries behind it are ignored and a policy decides for a known host
    damaged = sim.choose(5) == 0
    if damaged:
        warmup = False      # the earlier connection would fail on the same line
    with open(path, "w") as f:
        f.write("# generated\n")
        if damaged:
            bad = ("|1|not*base64*salt|qe1qj0lqGqnb6Bfb7q2JvnGnzwk=", "|1|c2hvcnQ=|qe1qj0lqGqnb6Bfb7q2JvnGnzwk=")[sim.choose(2)]
            f.write("%s %s %s\n" % (bad, ssh.key(other_same).get_name(), ssh.key(other_same).get_base64()))
            sim.fault("damaged_hashed_line")
        for n, k in entries:
            hn = HostKeys.hash_host(n) if hashed else n
            f.write("%s %s %s\n" % (hn, k.get_name(), k.get_base64()))
    ukey = ssh.key("ecdsa521_1")
    server = CredServer(sim, secret, [ukey])
    link = Link(sim, latency=((0.0, 0.01)[sim.choose(2)],) * 2)
    # the server under test: a pair whose client end is driven by SSHClient
    tapbox = {}

    def factory(sock, **kw):
        from sim.wiretap import LinkTap
        tap = tapbox["tap"]
        cls = ssh.tap_transport(Transport, tap, 0)
        return cls(sock, **kw)

    from sim.wiretap import LinkTap
    tap = LinkTap(link, sim)
    tapbox["tap"] = tap
    ts = ssh.tap_transport(Transport, tap, 1)(link.b)
    ts._sim_name = "T-server"
    ts.add_server_key(ssh.key(held))
    from sim.shims import Event
    ev = Event()
    ts.start_server(event=ev, server=server)
    c = SSHClient()
    try:
        if system_file:
            c.load_system_host_keys(path)
        else:
            c.load_host_keys(path)
    except Exception:
        if not damaged:
            raise
        # the damaged line makes loading the file fail: no connection is attempted, nothing is sent
        sim.probe("damaged_file_refused_at_load")
        ts.close()
        return {"sample": {"sub": "C", "known_hosts": shape, "damaged_hashed_line_first": True, "load": "raised"},
                "nontrivial": True, "case_key": "C|damaged|load-raised|" + shape, "counts": ["C:" + shape]}
    c.set_missing_host_key_policy(POLICIES[polname][0]())
    if warmup:
        # an earlier, legitimate connection of the SAME client object to a known host that shows the
        # same key (lookups must not leave state behind that makes the next name look known)
        link0 = Link(sim)
        t0 = Transport(link0.b)
        t0._sim_name = "T-server0"
        t0.add_server_key(ssh.key(held))
        from sim.shims import Event as _Ev
        t0.start_server(event=_Ev(), server=CredServer(sim, "other-secret", [ukey]))
        try:
            c.connect("first.example.com", 22, username="alice", password="other-secret", sock=link0.a,
                      look_for_keys=False, allow_agent=False, timeout=30, banner_timeout=30, auth_timeout=30)
            sim.probe("warmup_connection_ok")
        except Exception as e:
            raise RuntimeError("warm-up connection failed: %r" % (e,))
        t0.close()
    desc = {"sub": "C", "known_hosts": shape, "hashed": hashed, "system_file": system_file, "port": port,
            "policy": polname, "credential": kind, "server_key": ktype, "reference": "accept" if accept else "reject",
            "earlier_connection_to_known_host": warmup,
            "decided_by": decided_by}
    err = None
    try:
        kw = dict(username="alice", sock=link.a, look_for_keys=False, allow_agent=False, transport_factory=factory,
                  timeout=30, banner_timeout=30, auth_timeout=30)
        if kind == "password":
            c.connect(host, port, password=secret, **kw)
        else:
            c.connect(host, port, pkey=ukey, **kw)
    except Exception as e:
        err = e
    ssh.quiesce(sim, [link], (), settle=0.2, limit=20)
    desc["damaged_hashed_line_first"] = damaged
    if damaged and accept and err is not None and (c.get_transport() is None or not c.get_transport().is_authenticated()):
        # the lookup failed as a whole: allowed, as long as nothing was sent
        judge(sim, tap, server, False, desc, secret, "C:%s:damaged-file" % shape)
        sim.probe("damaged_file_refused")
        try:
            c.close()
        except Exception:
            pass
        ts.close()
        return {"sample": desc, "nontrivial": True, "case_key": repr(sorted(desc.items())), "counts": ["C:" + shape]}
    judge(sim, tap, server, accept, desc, secret, "C:%s:%s" % (shape, decided_by))
    if not accept and err is None:
        raise Violation(("C17", "connect-did-not-raise", "C", shape, polname), "SSHClient.connect returned normally for a server that had to be rejected", desc)
    if accept:
        t = c.get_transport()
        if t is None or not t.is_authenticated():
            raise Violation(("C17", "honest-connect-failed", "C", shape, decided_by), "SSHClient.connect failed although the host key is acceptable: %r" % (err,), desc)
        sim.probe("sshclient_accepted")
    else:
        sim.probe("sshclient_rejected_by_" + decided_by)
    try:
        c.close()
    except Exception:
        pass
    ts.close()
    return {"sample": desc, "nontrivial": True, "case_key": repr(sorted(desc.items())), "counts": ["C:" + shape]}
