"""C29 -- SFTP bulk transfers are exact or fail loudly.

SFTP engine (real SFTPClient.put/putfo/get/getfo and pipelined SFTPFile writes
against the real SFTPServer over a real channel of a simulated transport pair).
Generated: file sizes 0..1 MiB at chunk boundaries; callback / confirm / prefetch
/ concurrency cap on and off; a source stream for putfo that returns short
non-final blocks.  Faults: the served handle rejects the k-th read or write with
each SFTP error code (every k for files of up to 8 chunks: enumerated by the
case index), returns short reads, or the connection is lost while the k-th
request is served.
Oracle: a transfer call that returns normally has produced a destination
byte-identical to the source; otherwise it must raise; it must end (liveness
bound in virtual time).  A pipelined file whose write was rejected must raise
from write() or close()."""
import io
import os
import random

from paramiko import (SFTP_NO_SUCH_FILE, SFTP_PERMISSION_DENIED, SFTP_FAILURE, SFTP_BAD_MESSAGE,
                      SFTP_NO_CONNECTION, SFTP_CONNECTION_LOST, SFTP_OP_UNSUPPORTED, SFTP_EOF)

from sim import core
from sim.core import Violation, SimBudget, SimDeadlock
from sim.sftpsim import SftpSession, Faults

PROPERTY = "C29"
LEVEL = "fault_enumeration"
BUDGET = {"quick": {"runs": 2600, "wall": 45}, "thorough": {"runs": 60000, "wall": 570}}
RULE = ("Each run: one connection, 2 transfers; operation from put/putfo/putfo-from-short-reading-stream/get/getfo/"
        "pipelined-writes, size from chunk-boundary list, fault from none / k-th read or write rejected with one of 7 "
        "status codes / short reads / link lost at the k-th request; k enumerated over all chunk positions for files of "
        "up to 8 chunks (case key = op, size, fault kind, k, code).")
COMPONENTS = {"real": ["SFTPClient.put/putfo/get/getfo/_transfer_with_callback, SFTPFile incl. prefetch and pipelining, "
                       "SFTPServer, SFTPHandle, transports, channel", "scratch files on the real filesystem"],
              "harness": ["SFTPServerInterface over the scratch directory whose handles inject the faults"],
              "simulated": ["socket", "clock", "scheduling", "entropy"]}
ASSUMPTIONS = ["SFTP_EOF is not used as an injected read failure (an early EOF is a shorter file, not a failure)",
               "a write cannot be shortened in SFTP v3 (it is all or error), so 'shortens' applies to reads only"]
MINIMIZE_CASES = True
CHUNK = 32768
SIZES = (0, 1, 32767, 32768, 32769, 65536, 100000, 4 * CHUNK, 8 * CHUNK, 300000, 1 << 20)
CODES = (SFTP_NO_SUCH_FILE, SFTP_PERMISSION_DENIED, SFTP_FAILURE, SFTP_BAD_MESSAGE, SFTP_NO_CONNECTION,
         SFTP_CONNECTION_LOST, SFTP_OP_UNSUPPORTED)
OPS = ("put", "putfo", "putfo_dribble", "get", "getfo", "pipelined_writes")
T_END = 300.0


def sim_kw(seed):
    return {"max_steps": 8_000_000, "max_time": 7200.0}


def content(seed, n):
    return random.Random(seed).randbytes(n)


class Dribble:
    """A source stream whose read(n) returns short non-final blocks (pipe / socket like)."""

    def __init__(self, data, seed):
        self.data = data
        self.pos = 0
        self.rng = random.Random(seed)

    def read(self, n=-1):
        if self.pos >= len(self.data):
            return b""
        if n is None or n < 0:
            n = len(self.data)
        k = 1 + self.rng.randrange(min(n, len(self.data) - self.pos))
        if self.rng.randrange(3) == 0:
            k = min(n, len(self.data) - self.pos)
        out = self.data[self.pos:self.pos + k]
        self.pos += k
        return out


def gen_case(sim):
    op = OPS[sim.choose(len(OPS))]
    size = SIZES[sim.choose(len(SIZES), p0=None)]
    if size == (1 << 20) and sim.choose(3):
        size = 100000
    nchunks = max(1, -(-size // CHUNK))
    is_put = op in ("put", "putfo", "putfo_dribble", "pipelined_writes")
    fk = sim.choose(10)
    fault = None
    if fk in (1, 2, 3):
        k = sim.choose(nchunks + 1) if nchunks <= 8 else sim.choose(nchunks + 1)
        codes = CODES + (SFTP_EOF,) if is_put else CODES    # EOF to a read is a shorter file; to a write it is a refusal
        fault = ["reject", "write" if is_put else "read", k, codes[sim.choose(len(codes))]]
    elif fk == 4 and not is_put:
        fault = ["short_reads"]
    elif fk in (5, 8):
        # 5th element: 0 = the link goes while the k-th request is served (no answer), else so many virtual
        # microseconds later: the answer still arrives and the loss is noticed as the client sends its next request
        fault = ["cut", "write" if is_put else "read", sim.choose(nchunks + 1), ("eof", "reset")[sim.choose(2)],
                 (0, 0, 1, 30, 300, 3000)[sim.choose(6)]]
    elif fk in (6, 9):
        # the link is lost at an instant unrelated to the server's progress (virtual microseconds after the
        # start of the transfer), so that it can also fall between two requests, while the client is about to send
        fault = ["cut_at", "any", (20, 100, 300, 1000, 3000, 10000, 40000, 150000)[sim.choose(8)] + sim.choose(97),
                 ("eof", "reset")[sim.choose(2)]]
    return {"op": op, "size": size, "data_seed": sim.choose(1000), "fault": fault,
            "callback": bool(sim.choose(2)), "confirm": bool(sim.choose(2)), "prefetch": bool(sim.choose(3)),
            "cap": (None, None, 1, 3, 64)[sim.choose(5)], "bufsize": (-1, 0, 1, 1024, 65536)[sim.choose(5)],
            "write_size": (1, 1000, 32768, 40000, 100000)[sim.choose(5)]}


def case_key(case):
    f = case["fault"]
    return "%s|%d|%s" % (case["op"], case["size"], "-".join(str(x) for x in f) if f else "none")


def describe(case):
    f = case["fault"]
    fs = "no-fault" if not f else "%s-%s" % (f[0], f[1]) if f[0] in ("reject", "cut") else f[0]
    flags = []
    if case["op"] in ("put", "putfo", "putfo_dribble"):
        flags.append("confirm" if case["confirm"] else "no-confirm")
    if case["op"] in ("get", "getfo"):
        flags.append("prefetch" if case["prefetch"] else "no-prefetch")
    return "%s %s %s" % (case["op"], fs, " ".join(flags))


def scenario(sim):
    sim.p_switch = (0.02, 0.1, 0.3)[sim.choose(3)]
    faults = Faults(sim)
    s = SftpSession(sim, latency=(0.0, 0.002, 0.02)[sim.choose(3)], faults=faults)
    sim.c29 = {"case": None}
    keys = []
    first = None
    try:
        if getattr(sim, "case", None) is not None:
            run_case(sim, s, faults, sim.case, 0)
            return {"nontrivial": True}
        for i in range(2):
            case = gen_case(sim)
            first = first or case
            keys.append(case_key(case))
            alive = run_case(sim, s, faults, case, i)
            if not alive:
                break
    finally:
        s.close()
    return {"sample": first, "nontrivial": True, "case_key": "+".join(keys), "counts": [describe(first)]}


def run_case(sim, s, faults, case, idx):
    """-> True if the connection is still usable afterwards."""
    sim.c29["case"] = case
    op, size = case["op"], case["size"]
    data = content(case["data_seed"], size)
    name = "t%d.bin" % idx
    rp, lp = s.rpath(name), s.lpath(name)
    for p in (rp, lp):
        if os.path.exists(p):
            os.unlink(p)
    is_put = op in ("put", "putfo", "putfo_dribble", "pipelined_writes")
    if is_put:
        with open(lp, "wb") as f:
            f.write(data)
    else:
        with open(rp, "wb") as f:
            f.write(data)
    # arm the faults for this transfer only
    faults.reads = faults.writes = 0
    faults.fail_read_at = faults.fail_write_at = None
    faults.p_short_read = 0.0
    faults.cut_at = None
    del faults.log[:]
    f = case["fault"]
    if f:
        if f[0] == "reject":
            if f[1] == "write":
                faults.fail_write_at = (f[2], f[3])
            else:
                faults.fail_read_at = (f[2], f[3])
        elif f[0] == "short_reads":
            faults.p_short_read = 0.4
        elif f[0] == "cut":
            faults.cut_at = (f[1], f[2], f[3], f[4] if len(f) > 4 else 0)
        elif f[0] == "cut_at":
            timed = {"fired": False}

            def timed_cut(kind=f[3]):
                if not timed["done"]:
                    timed["fired"] = True
                    s.link.cut(None, kind)
            timed["done"] = False
            sim.after(f[2] * 1e-6, timed_cut)
    calls = []
    cb = (lambda a, b: calls.append((a, b))) if case["callback"] else None
    box = {}

    def transfer():
        try:
            if op == "put":
                s.sftp.put(lp, name, callback=cb, confirm=case["confirm"])
            elif op == "putfo":
                s.sftp.putfo(io.BytesIO(data), name, len(data), cb, case["confirm"])
            elif op == "putfo_dribble":
                s.sftp.putfo(Dribble(data, case["data_seed"]), name, len(data), cb, case["confirm"])
            elif op == "get":
                s.sftp.get(name, lp, callback=cb, prefetch=case["prefetch"],
                           max_concurrent_prefetch_requests=case["cap"])
            elif op == "getfo":
                out = io.BytesIO()
                s.sftp.getfo(name, out, callback=cb, prefetch=case["prefetch"],
                             max_concurrent_prefetch_requests=case["cap"])
                box["getfo"] = out.getvalue()
            else:
                fr = s.sftp.open(name, "wb", case["bufsize"])
                fr.set_pipelined(True)
                try:
                    ws = max(1, case["write_size"], len(data) // 1500)   # bounded number of packets per run
                    for i in range(0, len(data), ws):
                        fr.write(data[i:i + ws])
                finally:
                    fr.close()
            box["ok"] = True
        except Exception as e:
            box["exc"] = e

    task = sim.spawn(transfer, "transfer")
    done = sim.join_task(task, T_END)
    details = {"case": case, "server_io": faults.log[-6:]}
    if not done:
        raise Violation(("C29", "transfer-never-ends", describe(case)),
                        "%s of %d bytes (fault %s) neither returned nor raised within %.0f virtual seconds; parked in %s"
                        % (op, size, f, T_END, core.where_parked(task)), details)
    sim.probe("transfers")
    sim.probe("op_" + op)
    if f and f[0] == "cut_at":
        timed["done"] = True        # a cut that has not fired by now is cancelled
    fired = (f and ((f[0] == "reject" and faults.log) or (f[0] == "cut" and faults.cut_at is None)
                    or (f[0] == "cut_at" and timed["fired"])
                    or (f[0] == "short_reads" and sim.faults.get("short_read"))))
    if fired:
        sim.probe("fault_fired_" + f[0])
    if "exc" in box:
        sim.probe("raised")
        if not f or not fired:
            # nothing was injected (or the fault position was never reached): the transfer had to work
            raise Violation(("C29", "transfer-failed-without-fault", describe(case), type(box["exc"]).__name__),
                            "%s of %d bytes raised %r although no fault fired" % (op, size, box["exc"]), details)
        return f[0] not in ("cut", "cut_at") and s.p.tc.is_active()
    sim.probe("returned")
    if is_put:
        with open(rp, "rb") as fh:
            got = fh.read() if os.path.exists(rp) else None
        want = data
    elif op == "get":
        with open(lp, "rb") as fh:
            got = fh.read()
        want = data
    else:
        got, want = box.get("getfo"), data
    if got != want:
        j = 0
        while j < min(len(got), len(want)) and got[j] == want[j]:
            j += 1
        how = "truncated" if len(got) < len(want) and j == len(got) else "corrupted"
        raise Violation(("C29", "silent-" + how, describe(case)),
                        "%s of %d bytes returned normally but the destination has %d bytes, first difference at %d (fault %s; server i/o %s)"
                        % (op, size, len(got), j, f, faults.log[-3:]), details)
    if fired and f[0] == "reject" and f[1] == "write":
        # a rejected write cannot lead to an exact file: the check above already proves a mismatch, so this is unreachable
        pass
    if case["callback"] and cb is not None and size > 0 and op != "pipelined_writes":
        if not calls or calls[-1][0] != size:
            raise Violation(("C29", "callback-total-wrong", describe(case)),
                            "%s of %d bytes: last callback reported %r" % (op, size, calls[-1] if calls else None), details)
    return f is None or f[0] not in ("cut", "cut_at") or not fired


def on_hang(sim, exc):
    info = getattr(sim, "c29", None)
    if not info or not info["case"]:
        return None
    case = info["case"]
    where = "?"
    for t in sim.tasks:
        if t.name == "transfer" and t.state != core.DONE:
            where = core.where_parked(t)
    msg = str(exc)
    if "budget exceeded: steps" in msg or "budget exceeded (traced)" in msg:
        return None         # the run was merely too long for its step budget: a harness matter, not a hang
    if sim.spin_info:
        where = " < ".join(sim.spin_info[1][:3])
    return Violation(("C29", "transfer-never-ends", describe(case)),
                     "%s of %d bytes (fault %s): %s; transfer task in %s" % (case["op"], case["size"], case["fault"], msg[:100], where),
                     {"case": case})


def same_class(fp_a, fp_b):
    return list(fp_a[:2]) == list(fp_b[:2])


def case_candidates(case):
    def with_(**kw):
        c = dict(case)
        c.update(kw)
        return c
    f = case["fault"]
    for small in SIZES:
        if small < case["size"]:
            nch = max(1, -(-small // CHUNK))
            if f and f[0] in ("reject", "cut") and f[2] > nch:
                yield with_(size=small, fault=f[:2] + [nch] + f[3:])
            else:
                yield with_(size=small)
    if f and f[0] in ("reject", "cut"):
        for k in (0, 1, 2):
            if k < f[2]:
                yield with_(fault=f[:2] + [k] + f[3:])
    if f and f[0] == "reject" and f[3] != SFTP_FAILURE:
        yield with_(fault=f[:3] + [SFTP_FAILURE])
    if case["callback"]:
        yield with_(callback=False)
    if case["cap"] is not None:
        yield with_(cap=None)
    if case["op"] == "putfo_dribble":
        yield with_(op="putfo")
    if case["op"] == "put":
        yield with_(op="putfo")
    if case["op"] == "get":
        yield with_(op="getfo")
    if case["op"] == "pipelined_writes":
        if case["bufsize"] not in (-1, 0):
            yield with_(bufsize=0)
        if case["write_size"] != 32768:
            yield with_(write_size=32768)
