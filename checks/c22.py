"""C22 -- channel EOF and CLOSE are sent at most once and end data transmission.

CHAN engine with statement-level pre-emption inside channel.py: 2-4 tasks per
channel side run seeded programs of close / shutdown(0|1|2) / shutdown_write /
send / sendall / send_stderr / recv while the peer's tasks do the same.
Oracle over the wire-order log, per channel and side: at most one EOF and one
CLOSE; no DATA / EXTENDED_DATA after that side's EOF or CLOSE; a received
CLOSE is answered with a CLOSE unless one was already sent; once both CLOSEs
are exchanged further operations fail and emit nothing."""
import socket

import paramiko.channel as ch_mod
from paramiko.ssh_exception import SSHException

from sim import ssh, core
from sim.core import Violation
from sim.net import Link
from sim.wiretap import Reader

PROPERTY = "C22"
LEVEL = "exploration"
BUDGET = {"quick": {"runs": 700, "wall": 55}, "thorough": {"runs": 40000, "wall": 570}}
T_CALL = 5.0
RULE = ("Each run: one connection, 2 channels in sequence; per channel 2-4 tasks on each side with 1-5 operations each "
        "from {send, sendall, send_stderr, recv, shutdown_write, shutdown(0|1|2), close} with seeded pauses; line-level "
        "pre-emption in channel.py (probability and depth per run), latency 0-20 ms.")
COMPONENTS = {"real": ["both Transports/Channels unmodified, public API"], "simulated": ["socket", "clock", "scheduling (incl. line pre-emption)", "entropy"]}
ASSUMPTIONS = ["wire order is taken inside the packetizer's write lock"]
TRACE = {ch_mod.__file__}
OPS = ("send", "sendall", "send_stderr", "recv", "shutdown_write", "shutdown0", "shutdown1", "shutdown2", "close")


def _find_lines():
    """Source lines of channel.py where the internal order of 'stream ended' vs 'window reserved for
    data' becomes visible (optional instrumentation; if the text is not found it is simply not used)."""
    import inspect
    out = {}
    try:
        src, first = inspect.getsourcelines(ch_mod.Channel)
    except Exception:
        return out
    for i, line in enumerate(src):
        t = line.strip()
        if t == "self.eof_sent = True":
            out[(ch_mod.__file__, first + i)] = "ended"
        elif t == "self.closed = True":
            out[(ch_mod.__file__, first + i)] = "ended"
        elif t == "self.out_window_size -= size":
            out[(ch_mod.__file__, first + i)] = "reserve"
    tags = set(out.values())
    return out if tags == {"ended", "reserve"} else {}


WATCH = _find_lines()


def sim_kw(seed):
    return {"trace_files": TRACE, "max_steps": 4_000_000, "max_time": 3600.0}


def scenario(sim):
    sim.p_switch = (0.02, 0.1, 0.3)[sim.choose(3)]
    internal = []

    def hook(tag, frame):
        chan = frame.f_locals.get("self")
        internal.append((tag, id(chan)))
    if WATCH:
        sim.watch_lines = WATCH
        sim.line_hook = hook
        sim._tracer = sim._make_tracer()
        import sys as _sys
        _sys.settrace(sim._tracer)
    sim.internal_order = internal
    pp = (0.0, 0.005, 0.03, 0.2)[sim.choose(4)]
    sim.max_preempt = (0, 4, 10, 400)[sim.choose(4)]
    lat = (0.0, 0.001, 0.02)[sim.choose(3)]
    link = Link(sim, latency=(lat, lat))
    plog = []
    sim.p_preempt = 0.0
    # one run in four: one side never sends EOF (RFC 4254 5.3 allows closing without it), so the other side's
    # eof_received stays clear when the channel is closed; and small windows, so that a few unread kilobytes are
    # already more than the window-adjust threshold
    kw = {}
    sim.no_eof_side = (None, None, None, "c", "s")[sim.choose(5)]
    if sim.no_eof_side:
        def drop_eof(pk, payload):
            if payload[0] == 96:
                sim.fault("peer_closes_without_eof")
                return []
            return [payload]
        kw["client_pk" if sim.no_eof_side == "c" else "server_pk"] = ssh.byzantine_packetizer(sim.no_eof_side, plog, mutate_out=drop_eof)
        small = {"default_window_size": 32768}
        kw["client_kw"], kw["server_kw"] = small, small
    p = ssh.Pair(sim, link=link, plog=plog, **kw)
    p.start(timeout=60); p.wait_server(); p.auth_password()
    sim.p_preempt = pp
    descs = []
    for ep in range(2):
        descs.append(episode(sim, p, link, plog, ep))
    p.close()
    return {"sample": descs[0], "nontrivial": True}


def episode(sim, p, link, plog, ep):
    ch = p.tc.open_session(timeout=30)
    sch = p.ts.accept(30)
    if sch is None:
        raise RuntimeError("accept failed")
    ch.settimeout(2.0); sch.settimeout(2.0)
    ids = {"c": sch.get_id(), "s": ch.get_id()}     # recipient id in messages SENT by that side
    exhausted = sim.choose(3) == 0
    victim = None
    if exhausted:
        # one side's send window is used up before the tasks start (nobody has read yet), so its
        # writers block and are woken only by a later WINDOW_ADJUST -- possibly after EOF/CLOSE went out
        victim = (ch, sch)[sim.choose(2)]
        victim.settimeout(0.2)
        try:
            while True:
                victim.send(b"f" * 60000)
        except socket.timeout:
            pass
        victim.settimeout(2.0)
        sim.probe("window_exhausted_before_race")
    programs = {}
    tasks = []
    mark = sim.seq

    def runner(chan, prog):
        for op, gap in prog:
            if gap:
                sim.sleep(gap)
            try:
                if op == "send":
                    chan.send(b"a" * 20)
                elif op == "sendall":
                    chan.sendall(b"b" * 3000)
                elif op == "send_stderr":
                    chan.send_stderr(b"c" * 10)
                elif op == "recv":
                    chan.recv(1000 if not exhausted else 1 << 21)
                elif op == "shutdown_write":
                    chan.shutdown_write()
                elif op.startswith("shutdown"):
                    chan.shutdown(int(op[-1]))
                else:
                    chan.close()
            except (socket.error, socket.timeout, SSHException, EOFError):
                pass

    for side, chan in (("c", ch), ("s", sch)):
        if exhausted and sim.choose(2):
            # the interesting triangle: a writer blocked on the window, someone ending the stream,
            # and the peer reading (which produces the WINDOW_ADJUST) at about the same time
            g = (0.0, 0.001, 0.03)
            if chan is victim:
                plans = [[(("send", "send_stderr", "sendall")[sim.choose(3)], 0.0)],
                         [(("shutdown_write", "close", "shutdown2")[sim.choose(3)], g[sim.choose(3)])]]
            else:
                plans = [[("recv", g[sim.choose(3)])], [("recv", g[sim.choose(3)])]]
            for k, prog in enumerate(plans):
                programs["%s%d" % (side, k)] = prog
                tasks.append(sim.spawn(runner, "%s-task%d" % (side, k), chan, prog))
            continue
        for k in range(2 + sim.choose(3) if side == "c" else 1 + sim.choose(3)):
            prog = []
            for _ in range(1 + sim.choose(5)):
                w = sim.choose(12)
                op = OPS[w] if w < len(OPS) else ("send", "sendall", "close")[w - len(OPS)]
                prog.append((op, (0.0, 0.0, 0.001, 0.03)[sim.choose(4)]))
            programs["%s%d" % (side, k)] = prog
            tasks.append(sim.spawn(runner, "%s-task%d" % (side, k), chan, prog))
    end = sim.now + 120
    while any(t.state != core.DONE for t in tasks) and sim.now < end:
        sim.sleep(0.25)
    desc = {"programs": programs, "latency": link.latency[0], "window_exhausted_first": exhausted}
    if any(t.state != core.DONE for t in tasks):
        stuck = [t.name + "@" + core.where_parked(t) for t in tasks if t.state != core.DONE]
        raise Violation(("C22", "operation-stuck") + tuple(sorted(set(s.split("-")[0] + "@" + s.split("@")[1] for s in stuck))),
                        "channel operations still blocked after 120 s: %s" % stuck, desc)
    ssh.quiesce(sim, [link], (), settle=0.25, limit=20)
    sim.sleep(T_CALL)
    # internal order (when the instrumentation is available): no window reservation for data on a channel
    # object after that object's stream was ended -- this is what the unchanged code guarantees under its lock
    ended = set()
    for tag, cid in sim.internal_order:
        if tag == "ended":
            ended.add(cid)
        elif cid in ended:
            raise Violation(("C22", "window-reserved-after-stream-ended"),
                            "a sender reserved window for more data after EOF/CLOSE had already been decided for that channel", desc)
    if WATCH:
        sim.probe("internal_order_checked")
    check_wire(sim, plog, mark, ids, desc)
    # after both CLOSEs: operations fail and emit nothing
    closed_both = all(any(e[0] > mark and e[2] == s and e[3] == "tx" and e[4] == 97 and chan_of(e[5]) == ids[s] for e in plog)
                      for s in ("c", "s"))
    if closed_both:
        sim.probe("both_closes_exchanged")
        mark2 = sim.seq
        for side, chan in (("c", ch), ("s", sch)):
            for name, fn in (("send", lambda c=chan: c.send(b"late")), ("send_stderr", lambda c=chan: c.send_stderr(b"late")),
                             ("shutdown_write", lambda c=chan: c.shutdown_write()), ("close", lambda c=chan: c.close()),
                             # what was buffered before the close stays readable: draining it must not send anything
                             ("recv", lambda c=chan: (c.settimeout(0.0), c.recv(1 << 21))),
                             ("recv_stderr", lambda c=chan: (c.settimeout(0.0), c.recv_stderr(1 << 21)))):
                try:
                    r = fn()
                    if name.startswith("send") and r:
                        raise Violation(("C22", "send-succeeds-on-released-channel", name), "%s returned %r on a closed channel" % (name, r), desc)
                except (socket.error, socket.timeout, SSHException, EOFError):
                    pass
        ssh.quiesce(sim, [link], (), settle=0.2, limit=5)
        late = [e for e in plog if e[0] > mark2 and e[3] == "tx" and 93 <= e[4] <= 100 and chan_of(e[5]) == ids[e[2]]]
        if late:
            raise Violation(("C22", "message-for-released-channel", str(late[0][4])), "message type %d sent for a channel after both CLOSEs" % late[0][4], desc)
    else:
        ch.close(); sch.close()
        ssh.quiesce(sim, [link], (), settle=0.2, limit=10)
    return desc


def chan_of(payload):
    r = Reader(payload); r.byte()
    try:
        return r.u32()
    except Exception:
        return None


NAMES = {94: "DATA", 95: "EXTENDED_DATA", 96: "EOF", 97: "CLOSE"}


def check_wire(sim, plog, mark, ids, desc):
    found = []
    st = {s: {"eof": None, "close": None, "close_rx": None, "avail": None} for s in ("c", "s")}
    local = {"c": ids["s"], "s": ids["c"]}     # local id of the channel on each side (recipient id of messages it RECEIVES)
    # send-window ledger per side for this channel (to tell an in-flight send that was overtaken by
    # EOF/CLOSE from data whose window was reserved only afterwards)
    win = {"c": None, "s": None}
    for e in sorted(plog):
        seq, now, side, kind, ptype, payload = e
        if kind != "tx" or ptype not in (90, 91):
            continue
        r = Reader(payload); r.byte()
        other = "s" if side == "c" else "c"
        if ptype == 90:
            r.string(); sender = r.u32(); w0 = r.u32()
            if sender == local[side]:
                win[other] = w0            # `side` will RECEIVE up to w0: that is `other`'s send window
        else:
            rec = r.u32(); sender = r.u32(); w0 = r.u32()
            if sender == local[side]:
                win[other] = w0
    end_time = sim.now
    for e in sorted(plog):
        seq, now, side, kind, ptype, payload = e
        if seq <= mark or ptype not in (93, 94, 95, 96, 97):
            continue
        cid = chan_of(payload)
        if kind == "rx" and ptype == 93 and cid == local[side]:
            r = Reader(payload); r.byte(); r.u32()
            if win[side] is not None:
                win[side] += r.u32()
            continue
        if kind == "tx" and cid == ids[side]:
            s = st[side]
            if ptype in (94, 95):
                r = Reader(payload); r.byte(); r.u32()
                if ptype == 95:
                    r.u32()
                n = r.u32()
                if win[side] is not None:
                    win[side] -= n
                ended = "CLOSE" if s["close"] is not None else ("EOF" if s["eof"] is not None else None)
                if ended:
                    # could this data have been reserved (under the channel lock) before EOF/CLOSE was decided?
                    if s["avail"] is not None and s["avail"] >= n:
                        s["avail"] -= n
                        how = "in-flight-send-overtaken"
                    else:
                        how = "window-reserved-after-" + ended
                    found.append(Violation(("C22", NAMES[ptype] + "-after-" + ended, how),
                                    "%s sent %s (%d bytes) after its %s on the same channel (%s)" % (side, NAMES[ptype], n, ended, how), desc))
                sim.probe("data_messages")
            elif ptype == 96:
                if s["eof"] is not None:
                    found.append(Violation(("C22", "second-EOF"), "%s sent EOF twice" % side, desc))
                if s["close"] is not None:
                    found.append(Violation(("C22", "EOF-after-CLOSE", "in-flight-shutdown-overtaken"), "%s sent EOF after CLOSE" % side, desc))
                s["eof"] = now
                s["avail"] = win[side]
            elif ptype == 97:
                if s["close"] is not None:
                    found.append(Violation(("C22", "second-CLOSE"), "%s sent CLOSE twice" % side, desc))
                s["close"] = now
                if s["avail"] is None:
                    s["avail"] = win[side]
        elif kind == "rx" and cid == local[side] and ptype == 97:
            st[side]["close_rx"] = now
    for side, s in st.items():
        if s["close_rx"] is not None and s["close"] is None and end_time - s["close_rx"] > T_CALL:
            found.append(Violation(("C22", "CLOSE-not-answered"), "%s received CLOSE at t=%.2f and had not answered by t=%.2f" % (side, s["close_rx"], end_time), desc))
    if found:
        # report what is NOT explained by the known in-flight race first, so that it cannot hide behind it
        found.sort(key=lambda v: any("in-flight" in x for x in v.fingerprint))
        raise found[0]
