"""C20 -- channel flow control never deadlocks while the receiver keeps reading, and
every byte the peer sends counts back toward its window.

CHAN engine: window sizes around every threshold and max-packet classes, a
sender pushing up to 4x the window split between stdout and stderr (several
writer tasks), a receiver reading both streams with random sizes; in a third of
the runs the sending peer additionally emits EXTENDED_DATA with type codes
0..5 (codes other than 1 are discarded by paramiko).
Oracle: all senders finish within the bound; once the reader has drained
everything, bytes sent on the channel (as seen on the wire) minus the window
adjustments granted is at most the 10% acknowledgement threshold."""
import socket
import struct

from paramiko import Message

from sim import ssh, core
from sim.chanwork import Workload, ChanSpec
from sim.core import Violation
from sim.wiretap import Reader

PROPERTY = "C20"
LEVEL = "exploration"
BUDGET = {"quick": {"runs": 1800, "wall": 55}, "thorough": {"runs": 30000, "wall": 570}}
WINDOWS = (32768, 32769, 32777, 39999, 40000, 40001, 65536, 100000, 1 << 21, 1 << 31, (1 << 32) - 1)
PACKETS = (4096, 4097, 32768, 65536, (1 << 32) - 1)
RULE = ("Each run: direction, window from %r and max packet from %r (requested by the receiver's side), N up to 4x window "
        "(capped at 400 KB) split between stdout and stderr over 1-3 writer tasks, readers with random sizes, latency "
        "0-100 ms; 1/3 of runs add EXTENDED_DATA with type codes 0..5 from the sending peer; 1/3 of runs pre-empt tasks "
        "at bytecode level inside channel.py (right before stores to shared state)." % (WINDOWS, PACKETS))
COMPONENTS = {"real": ["both Transports/Channels unmodified, public API; discarded-type EXTENDED_DATA is emitted by the real "
                       "sending Transport's packetizer"], "simulated": ["socket", "clock", "scheduling", "entropy"]}
ASSUMPTIONS = ["bound for completion: 120 virtual seconds (RTT <= 0.2 s, at most a few hundred window round trips)"]
LIMIT = 120.0


def sim_kw(seed):
    kw = {"max_steps": 8_000_000, "max_time": 7200.0}
    if seed % 3 == 0:
        # bytecode-level pre-emption inside channel.py: a switch may happen right before a store to shared
        # state, i.e. inside statements such as `self.in_window_sofar += n`
        import paramiko.channel as ch_mod
        kw.update(trace_files={ch_mod.__file__}, trace_opcodes=True)
        if seed % 2 == 0:
            # only inside the functions that keep the window accounts: the few pre-emptions a run may spend all go
            # to places where a lost update would cost window
            kw["trace_funcs"] = {"_check_add_window", "_window_adjust", "_wait_for_send_window", "_feed_extended",
                                 "recv", "recv_stderr", "_send"}
    return kw


def scenario(sim):
    sim.p_switch = (0.02, 0.1, 0.3)[sim.choose(3)]
    if sim.trace_opcodes:
        sim.p_preempt_store = (0.002, 0.01, 0.05)[sim.choose(3)]
        sim.max_preempt = (2, 4, 8)[sim.choose(3)]
        if sim.trace_funcs:
            sim.p_preempt_store = (0.05, 0.2)[sim.choose(2)]
            sim.max_preempt = (8, 30)[sim.choose(2)]
    lat = (0.0, 0.005, 0.1)[sim.choose(3)]
    W = WINDOWS[sim.choose(len(WINDOWS))]
    P = PACKETS[sim.choose(len(PACKETS))]
    direction = ("s2c", "c2s")[sim.choose(2)]
    junk = sim.choose(3) == 0
    # the RECEIVER's side decides window/max packet: client -> via open_session args, server -> via its defaults
    if direction == "s2c":
        w = Workload(sim, latency=lat, timeout=LIMIT)
        w.connect()
        sp = ChanSpec(); sp.window = W; sp.max_packet = P
        ch, sch = w.open(sp)
        src, dst, src_side, dst_side = sch, ch, "s", "c"
    else:
        w = Workload(sim, latency=lat, timeout=LIMIT, server_kw={"default_window_size": W, "default_max_packet_size": P})
        w.connect()
        ch, sch = w.open(ChanSpec())
        src, dst, src_side, dst_side = ch, sch, "c", "s"
    N = min(400000, (W // 4, W - 1, W, W + 1, 2 * W, 4 * W)[sim.choose(6)])
    n_err = (0, N // 3, N)[sim.choose(3)]
    n_out = N - n_err
    tail = sim.choose(4) == 0 and W <= 100000
    if tail:
        # both streams' writers end up blocked on an exhausted window with only a few bytes left each
        a, b = 1 + sim.choose(200), 1 + sim.choose(200)
        n_out, n_err = W // 2 + a, W - W // 2 + b
        N = n_out + n_err
    desc = {"direction": direction, "window": W, "max_packet": P, "N": N, "stderr_part": n_err, "latency": lat, "junk": junk, "tail_shape": tail}
    junk_total = 0
    if junk:
        # extended data of types the receiver discards, before and during the transfer
        codes = [sim.choose(6) for _ in range(1 + sim.choose(4))]
        sizes = [min(W // 3, (10, 1000, 4000, 20000)[sim.choose(4)]) for _ in codes]
        desc["junk_codes"] = list(zip(codes, sizes))

        def junker():
            for code, n in zip(codes, sizes):
                m = Message()
                m.add_byte(bytes([95]))
                m.add_int(src.remote_chanid)
                m.add_int(code)
                m.add_string(b"j" * n)
                src.get_transport().packetizer.send_message(m)
                sim.fault("extended_data_code_%d" % code)
                sim.sleep((0.0, 0.01)[sim.choose(2)])
        w.spawn("junker", junker)
        junk_total = sum(n for c, n in zip(codes, sizes) if c != 1)
        n_err_expected_extra = sum(n for c, n in zip(codes, sizes) if c == 1)
    else:
        n_err_expected_extra = 0
    prefill = (not junk) and sim.choose(5) == 0 and W <= 100000
    if prefill:
        return prefill_case(sim, w, src, dst, src_side, dst_side, W, desc)
    out_data = b"o" * n_out
    err_data = b"e" * n_err
    nw = 1 + sim.choose(2)

    def writer(data, stderr):
        i = 0
        while i < len(data):
            k = (1 << 20) if tail else (100, 5000, 40000, 1 << 20)[sim.choose(4)]
            piece = data[i:i + k]
            (src.sendall_stderr if stderr else src.sendall)(piece)
            i += len(piece)
    if n_out:
        w.spawn("w-out", lambda: writer(out_data, False))
    if n_err:
        w.spawn("w-err", lambda: writer(err_data, True))
    got = {"out": 0, "err": 0}

    def reader(stderr, total):
        key = "err" if stderr else "out"
        while got[key] < total:
            n = (1, 500, 5000, 70000)[sim.choose(4)]
            x = (dst.recv_stderr if stderr else dst.recv)(n)
            if not x:
                return
            got[key] += len(x)
    if sim.choose(4) == 0:
        # the reading side has finished its own sending direction (stdin sent, half-close, now read the answer):
        # its EOF says nothing about the direction it is still receiving on
        desc["receiver_half_closed"] = True
        when = (0.0, 0.0, 0.05)[sim.choose(3)]

        def half_close():
            if when:
                sim.sleep(when)
            dst.shutdown_write()
        w.spawn("half-close", half_close)
        sim.probe("receiver_half_closed_own_direction")
    w.spawn("r-out", lambda: reader(False, n_out))
    w.spawn("r-err", lambda: reader(True, n_err + n_err_expected_extra))
    stuck = w.wait(LIMIT + 30)
    for name, e, when in w.errors:
        kind = "timeout" if isinstance(e, socket.timeout) else type(e).__name__
        raise Violation(("C20", "transfer-failed", name.split("-")[0], kind, "with-discarded-extended-data" if junk_total else "plain"),
                        "%s ended with %r at t=%.1f although the receiver kept reading (got %r of out=%d err=%d)"
                        % (name, e, when, got, n_out, n_err), desc)
    if stuck:
        raise Violation(("C20", "transfer-stalled", "with-discarded-extended-data" if junk_total else "plain")
                        + tuple(sorted(set(t.name + "@" + core.where_parked(t) for t in stuck))),
                        "still blocked after %.0f s: %s (got %r of out=%d err=%d)"
                        % (LIMIT, [t.name for t in stuck], got, n_out, n_err), desc)
    ssh.quiesce(sim, [w.link], (), settle=0.25, limit=30)
    # wire ledger for the direction under test
    sent = 0
    granted = 0
    for seq, now, side, kind, ptype, payload in sorted(w.plog):
        if kind != "tx":
            continue
        if side == src_side and ptype in (94, 95):
            r = Reader(payload); r.byte(); r.u32()
            if ptype == 95:
                r.u32()
            sent += r.u32()
        elif side == dst_side and ptype == 93:
            r = Reader(payload); r.byte(); r.u32()
            granted += r.u32()
    threshold = W // 10
    outstanding = sent - granted
    desc["ledger"] = {"sent": sent, "granted": granted, "threshold": threshold, "discarded_bytes": junk_total}
    if outstanding > threshold:
        raise Violation(("C20", "window-not-credited", "discarded-extended-data" if junk_total else "plain"),
                        "receiver drained everything, yet %d bytes sent on the channel were never credited back "
                        "(sent %d, granted %d, acknowledgement threshold %d, discarded extended data %d)"
                        % (outstanding, sent, granted, threshold, junk_total), desc)
    sim.probe("transfers_completed")
    if granted:
        sim.probe("transfers_needing_adjusts")
    w.p.close()
    return {"sample": desc, "nontrivial": True, "counts": ["W:%d" % W, "junk" if junk else "plain"]}


def prefill_case(sim, w, src, dst, src_side, dst_side, W, desc):
    """The window is filled completely while nobody reads; then 2-3 small writers (stdout and stderr)
    block on the exhausted window; then the receiver drains the backlog with ONE large recv (a single
    window adjustment) and keeps reading both streams: every writer must still finish."""
    desc["shape"] = "prefill-then-small-writers"
    src.sendall(b"f" * W)
    small = [(bool(sim.choose(2)), 1 + sim.choose(300)) for _ in range(2 + sim.choose(2))]
    desc["small_writers"] = small
    tasks = []
    for i, (stderr, n) in enumerate(small):
        tasks.append(w.spawn("w-small%d" % i, (lambda stderr=stderr, n=n: (src.sendall_stderr if stderr else src.sendall)(b"s" * n))))
    sim.sleep(1.0)       # all of them are now waiting for window
    if all(t.state != core.DONE for t in tasks):
        sim.probe("several_senders_blocked_on_zero_window")
    want_out = W + sum(n for e, n in small if not e)
    want_err = sum(n for e, n in small if e)
    got = {"out": 0, "err": 0}
    dst.settimeout(15.0)

    def reader(stderr, total):
        key = "err" if stderr else "out"
        try:
            while got[key] < total:
                x = (dst.recv_stderr if stderr else dst.recv)(1 << 20)
                if not x:
                    return
                got[key] += len(x)
        except socket.timeout:
            return
    w.spawn("r-out", lambda: reader(False, want_out))
    w.spawn("r-err", lambda: reader(True, want_err))
    stuck = w.wait(60.0)
    for name, e, when in w.errors:
        raise Violation(("C20", "transfer-failed", name.split("-")[0], type(e).__name__, "prefill"),
                        "%s ended with %r although the receiver kept reading (got %r of out=%d err=%d)" % (name, e, got, want_out, want_err), desc)
    if stuck or got["out"] < want_out or got["err"] < want_err:
        raise Violation(("C20", "transfer-stalled", "prefill-then-small-writers"),
                        "receiver kept reading, yet only out %d/%d err %d/%d arrived; still blocked: %s"
                        % (got["out"], want_out, got["err"], want_err, [t.name + "@" + core.where_parked(t) for t in stuck]), desc)
    sim.probe("transfers_completed")
    w.p.close()
    return {"sample": desc, "nontrivial": True, "counts": ["W:%d" % W, "prefill"]}
