"""C07 -- signatures must use the negotiated / declared signature algorithm.

LINK engine with a byzantine peer, enumerated pairs.
 (a) host-key side: for each negotiated host-key algorithm N the (real) server
     signs the exchange hash with / labels the signature as algorithm B, for
     every pair (N, B); with and without B disabled on the victim client.
 (b) user-auth side: a (real) client sends a publickey request declaring
     algorithm A whose signature is made and labelled with B over the correct
     session blob, for every pair, incl. certificate forms; with and without B
     (or A) in the victim server's disabled pubkeys.
 (c) as (a), but the first exchange is honest and the substitution happens in a
     re-key with the same host key (initiated by either side).
Oracle: the victim accepts iff B == N (resp. B == A without the cert suffix)
and that algorithm is enabled on the victim."""
import os
import struct

from cryptography.hazmat.primitives import hashes
from cryptography.hazmat.primitives.asymmetric import padding

import paramiko
from paramiko import Message, RSAKey
from paramiko.ssh_exception import SSHException

from sim import ssh, core
from sim.core import Violation
from sim.net import Link
from sim.wiretap import Reader

PROPERTY = "C07"
LEVEL = "fault_enumeration"
RSA_ALGOS = ("ssh-rsa", "rsa-sha2-256", "rsa-sha2-512")
EC_ALGOS = ("ecdsa-sha2-nistp256", "ecdsa-sha2-nistp384", "ecdsa-sha2-nistp521", "ssh-ed25519")
HOST_CASES = [("rsa", n, b, dis) for n in RSA_ALGOS for b in RSA_ALGOS for dis in (False, True)] + \
             [("ec", n, b, False) for n in EC_ALGOS for b in EC_ALGOS + ("ssh-rsa",)]
CERT = "-cert-v01@openssh.com"
AUTH_DECL = RSA_ALGOS + tuple(a + CERT for a in RSA_ALGOS)
AUTH_CASES = [("rsa", a, b, dis) for a in AUTH_DECL for b in RSA_ALGOS for dis in ("none", "B", "A", "A+probe", "B+probe")] + \
             [("ec", a, b, "none") for a in EC_ALGOS for b in EC_ALGOS]
# the same pairs in a RE-KEY: the first exchange is honest, the substitution happens in a later exchange with the
# same host key (a verifier that trusts what it checked in the first exchange must not skip the check then)
REKEY_CASES = [("rsa", n, b, dis) for n in RSA_ALGOS for b in RSA_ALGOS for dis in (False, True)] + \
              [("ec", n, b, False) for n in EC_ALGOS for b in EC_ALGOS if b != n][:6] + [("ec", n, n, False) for n in EC_ALGOS]
# a server whose host key is an OpenSSH certificate: the negotiated name is a certificate type, the signature algorithm
# that has to be used is that name without the certificate suffix
HOST_CERT_CASES = [("rsa", n + CERT, b, dis) for n in RSA_ALGOS for b in RSA_ALGOS for dis in (False, True)]
CASES = [("host",) + c for c in HOST_CASES] + [("auth",) + c for c in AUTH_CASES] + [("host-rekey",) + c for c in REKEY_CASES] + \
        [("host-cert",) + c for c in HOST_CERT_CASES]
BUDGET = {"quick": {"runs": len(CASES) * 4, "wall": 55}, "thorough": {"runs": len(CASES) * 150, "wall": 560}}
EXHAUSTIVE = True
RULE = ("Enumerated: every (negotiated/declared algorithm, signature algorithm) pair for RSA incl. certificate "
        "forms, ECDSA and Ed25519 name mismatches, with and without the substituted algorithm disabled on the "
        "verifying side (%d cases; seed index walks them, schedule and latency drawn per run)." % len(CASES))
COMPONENTS = {"real": ["victim Transport/AuthHandler/key classes unmodified", "adversary: real Transport whose host key "
                       "object / outgoing USERAUTH_REQUEST signs with another algorithm"],
              "simulated": ["socket", "clock", "scheduling", "entropy"]}
ASSUMPTIONS = ["paramiko's own server mode does not present host-key certificates; the host-cert cases use an adversary key object "
               "that presents the certificate blob as K_S (victim: the unmodified client)"]
HKEY = {"ssh-rsa": "rsa1", "rsa-sha2-256": "rsa1", "rsa-sha2-512": "rsa1", "ecdsa-sha2-nistp256": "ecdsa256_1",
        "ecdsa-sha2-nistp384": "ecdsa384_1", "ecdsa-sha2-nistp521": "ecdsa521_1", "ssh-ed25519": "ed25519_1"}
RSA_HASH = {"ssh-rsa": hashes.SHA1, "rsa-sha2-256": hashes.SHA256, "rsa-sha2-512": hashes.SHA512}


def sim_kw(seed):
    return {"max_steps": 2_000_000, "max_time": 3600.0}


def sstr(b):
    if isinstance(b, str):
        b = b.encode()
    return struct.pack(">I", len(b)) + b


class SubstitutingRSA(RSAKey):
    """Adversary host key: signs with algorithm `sub` whatever was negotiated."""
    sub = None

    def sign_ssh_data(self, data, algorithm=None):
        return RSAKey.sign_ssh_data(self, data, self.sub)


def relabel(key, newname):
    """Adversary host key (ECDSA/Ed25519): honest signature bytes, other name (attribute `label`; None = honest)."""
    cls = type(key)

    class Relabelled(cls):
        label = newname

        def sign_ssh_data(self, data, algorithm=None):
            m = cls.sign_ssh_data(self, data, algorithm)
            if self.label is None:
                return m
            m.rewind()
            m.get_text()
            sig = m.get_binary()
            out = Message()
            out.add_string(self.label)
            out.add_string(sig)
            return out
    k = Relabelled.__new__(Relabelled)
    k.__dict__.update(key.__dict__)
    return k


def scenario(sim):
    sim.p_switch = (0.02, 0.2)[sim.choose(2)]
    case = CASES[sim.seed % len(CASES)]
    lat = (0.0, 0.01)[sim.choose(2)]
    link = Link(sim, latency=(lat, lat))
    if case[0] == "host":
        return host_case(sim, link, case)
    if case[0] == "host-rekey":
        return host_rekey_case(sim, link, case)
    if case[0] == "host-cert":
        return host_cert_case(sim, link, case)
    return auth_case(sim, link, case)


def host_rekey_case(sim, link, case):
    _, fam, N, B, dis = case
    base = ssh.key(HKEY[N])
    if fam == "rsa":
        hk = SubstitutingRSA(key=base.key)
        hk.sub = N
    else:
        hk = relabel(base, B)
        hk.label = None
    ckw = {"disabled_algorithms": {"keys": [B]}} if (dis and B != N) else {}
    p = ssh.Pair(sim, link=link, host_keys=(hk,), client_kw=ckw)
    ssh.configure(p.tc, hostkey_algo=N, kex="curve25519-sha256@libssh.org")
    desc = {"side": "host-key, re-key", "negotiated": N, "signature_algorithm_in_rekey": B, "B_disabled_on_client": dis}
    p.start(timeout=30)
    p.wait_server()
    if not (p.tc.is_active() and p.tc.initial_kex_done):
        raise Violation(("C07", "honest-host-key-signature-rejected", N), "honest first exchange with %s failed" % N, desc)
    p.auth_password()
    # from now on the server's signatures use / are labelled B
    if fam == "rsa":
        hk.sub = B
    else:
        hk.label = B if B != N else None
    who = sim.choose(2)
    err = None
    try:
        (p.tc if who == 0 else p.ts).renegotiate_keys()
    except Exception as e:
        err = e
    ssh.quiesce(sim, [link], (), settle=0.2, limit=10)
    ok = False
    if p.tc.is_active() and p.ts.is_active():
        try:
            ch = p.tc.open_session(timeout=10)
            sch = p.ts.accept(10)
            ok = sch is not None and ssh.echo_round(sim, ch, sch, 100, 100)
        except Exception as e:
            err = err or e
    expect = (B == N)
    if ok and not expect:
        raise Violation(("C07", "host-key-signature-algorithm-substituted", fam, "disabled" if dis else "enabled", "in-rekey"),
                        "client completed a RE-KEY (and the session carries on) although %s was negotiated and the "
                        "signature uses %s%s" % (N, B, " (which the client has disabled)" if dis else ""), desc)
    if not ok and expect:
        raise Violation(("C07", "honest-host-key-signature-rejected", N, "in-rekey"),
                        "honest re-key with %s failed: %r" % (N, err), desc)
    sim.probe("rekey_accepted" if ok else "rekey_rejected")
    p.close()
    return {"sample": desc, "case_key": repr(case), "nontrivial": True, "counts": ["host-rekey"]}


class CertHostKey(RSAKey):
    """Adversary host key: presents its certificate as K_S and signs with algorithm `sub`."""
    sub = None

    def asbytes(self):
        return self.public_blob.key_blob

    def sign_ssh_data(self, data, algorithm=None):
        return RSAKey.sign_ssh_data(self, data, self.sub)


def host_cert_case(sim, link, case):
    _, fam, N, B, dis = case
    plain = N[:-len(CERT)]
    hk = CertHostKey.from_private_key_file(os.path.join(ssh.KEYDIR, "cert_rsa.key"))
    hk.load_certificate(os.path.join(ssh.KEYDIR, "cert_rsa.key-cert.pub"))
    hk.sub = B
    ckw = {"disabled_algorithms": {"keys": [B]}} if (dis and B != plain) else {}
    p = ssh.Pair(sim, link=link, host_keys=(), client_kw=ckw)
    p.ts.server_key_dict = {N: hk}
    ssh.configure(p.tc, hostkey_algo=N, kex="curve25519-sha256@libssh.org")
    desc = {"side": "host-key certificate", "negotiated": N, "signature_algorithm": B, "B_disabled_on_client": dis}
    err = None
    try:
        p.start(timeout=30)
    except Exception as e:
        err = e
    done = p.tc.is_active() and p.tc.initial_kex_done
    if done and p.tc.host_key_type != N:
        raise RuntimeError("harness: negotiated %r instead of %r" % (p.tc.host_key_type, N))
    expect = (B == plain)
    if done and not expect:
        raise Violation(("C07", "host-key-signature-algorithm-substituted", fam, "disabled" if dis else "enabled", "certificate"),
                        "client completed the key exchange although %s was negotiated and the signature uses %s%s"
                        % (N, B, " (which the client has disabled)" if dis else ""), desc)
    if not done and expect:
        raise Violation(("C07", "honest-host-key-signature-rejected", N),
                        "client rejected a certificate host key's signature made with %s (negotiated: %s): %r" % (B, N, err), desc)
    sim.probe("host_cert_accepted" if done else "host_cert_rejected")
    p.close()
    return {"sample": desc, "case_key": repr(case), "nontrivial": True, "counts": ["host-cert"]}


def host_case(sim, link, case):
    _, fam, N, B, dis = case
    base = ssh.key(HKEY[N])
    if fam == "rsa":
        hk = SubstitutingRSA(key=base.key)
        hk.sub = B
    else:
        hk = relabel(base, B) if B != N else base
    ckw = {"disabled_algorithms": {"keys": [B]}} if (dis and B != N) else {}
    p = ssh.Pair(sim, link=link, host_keys=(hk,), client_kw=ckw)
    ssh.configure(p.tc, hostkey_algo=N, kex="curve25519-sha256@libssh.org")
    desc = {"side": "host-key", "negotiated": N, "signature_algorithm": B, "B_disabled_on_client": dis}
    err = None
    try:
        p.start(timeout=30)
    except Exception as e:
        err = e
    done = p.tc.is_active() and p.tc.initial_kex_done
    expect = (B == N)
    if done and not expect:
        raise Violation(("C07", "host-key-signature-algorithm-substituted", fam, "disabled" if dis else "enabled"),
                        "client completed the key exchange although %s was negotiated and the signature uses %s%s"
                        % (N, B, " (which the client has disabled)" if dis else ""), desc)
    if not done and expect:
        raise Violation(("C07", "honest-host-key-signature-rejected", N),
                        "client rejected a signature made with the negotiated algorithm %s: %r" % (N, err), desc)
    sim.probe("host_accepted" if done else "host_rejected")
    p.close()
    return {"sample": desc, "case_key": repr(case), "nontrivial": True, "counts": ["host"]}


def auth_case(sim, link, case):
    _, fam, A, B, dis = case
    state = {"rewritten": 0}
    plog = []
    if fam == "rsa":
        if A.endswith(CERT):
            ck = RSAKey.from_private_key_file(os.path.join(ssh.KEYDIR, "cert_rsa.key"))
            ck.load_certificate(os.path.join(ssh.KEYDIR, "cert_rsa.key-cert.pub"))
            keyblob = ck.public_blob.key_blob
        else:
            ck = ssh.key("rsa1")
            keyblob = ck.asbytes()
    else:
        ck = ssh.key(HKEY[A])
        keyblob = ck.asbytes()

    def mutate_out(pk, payload):
        if payload[0] != 50:
            return [payload]
        r = Reader(payload)
        r.byte()
        user = r.string(); service = r.string(); method = r.string()
        if method != b"publickey" or not r.boolean():
            return [payload]
        sid = holder["p"].tc.session_id
        head = (bytes([50]) + sstr(user) + sstr(service) + sstr(b"publickey") + b"\x01" + sstr(A) + sstr(keyblob))
        blob = sstr(sid) + head
        if fam == "rsa":
            raw = ck.key.sign(blob, padding.PKCS1v15(), RSA_HASH[B]())
            sig = sstr(B) + sstr(raw)
        else:
            m = ck.sign_ssh_data(blob, A)
            m.rewind(); m.get_text()
            sig = sstr(B) + sstr(m.get_binary())
        state["rewritten"] += 1
        out = []
        if probe:
            # first ask, without a signature and under an ENABLED algorithm, whether the key is acceptable
            q = [x for x in RSA_ALGOS if x not in disabled][0]
            out.append(bytes([50]) + sstr(user) + sstr(service) + sstr(b"publickey") + b"\x00" + sstr(q) + sstr(ck.asbytes() if not A.endswith(CERT) else keyblob))
            sim.fault("pk_probe_first")
        out.append(head + sstr(sig))
        return out

    holder = {}
    probe = dis.endswith("+probe")
    dis = dis.replace("+probe", "")
    disabled = {"none": [], "B": [B], "A": [A.replace(CERT, "")]}[dis]
    skw = {"disabled_algorithms": {"pubkeys": disabled}} if disabled else {}
    server = ssh.ScriptedServer(sim, allowed_keys=[ck])
    p = ssh.Pair(sim, link=link, client_pk=ssh.byzantine_packetizer("c", plog, mutate_out=mutate_out),
                 server_pk=ssh.observing_packetizer("s", plog), server_kw=skw, server=server)
    p.plog = plog
    holder["p"] = p
    desc = {"side": "user-auth", "declared": A, "signature_algorithm": B, "server_disabled_pubkeys": disabled,
            "probe_first": probe}
    p.start(timeout=30)
    p.wait_server()
    err = None
    try:
        p.tc.auth_publickey("alice", ck)
    except Exception as e:
        err = e
    ssh.quiesce(sim, [link], (), settle=0.2, limit=10)
    if not state["rewritten"]:
        raise RuntimeError("the client never sent a signed publickey request: %r" % (err,))
    # USERAUTH_SUCCESS on the wire is the verdict (is_authenticated() turns False once the connection is gone)
    authed = p.ts.is_authenticated() or any(e[2] == "s" and e[3] == "tx" and e[4] == 52 for e in plog)
    A0 = A.replace(CERT, "")
    expect = (B == A0) and (A0 not in disabled)
    if authed and not expect:
        why = "signature uses %s" % B if B != A0 else "%s is disabled on the server" % A0
        raise Violation(("C07", "user-auth-signature-algorithm-substituted", fam,
                         "B-disabled" if B in disabled else "B-enabled", "cert" if A.endswith(CERT) else "plain"),
                        "server authenticated a publickey request declaring %s although the %s" % (A, why), desc)
    if not authed and expect:
        raise Violation(("C07", "honest-user-auth-rejected", A),
                        "server rejected a request whose signature uses the declared algorithm %s: %r" % (A, err), desc)
    sim.probe("auth_accepted" if authed else "auth_rejected")
    p.close()
    return {"sample": desc, "case_key": repr(case), "nontrivial": True, "counts": ["auth"]}
