"""C03 -- outgoing packets are framed and padded per RFC 4253 section 6.

PKT engine.  For one cipher suite per run (the seed index walks all suites and
the cleartext state), every payload length 1..4*blocksize+8 plus boundary
lengths is sent through the real Packetizer with short writes / EAGAIN; the
bytes the socket accepted are decoded by the independent wiretap codec and the
framing rules are checked on every packet."""
from sim import pkt, wiretap
from sim.core import Violation
from checks import c01

PROPERTY = "C03"
LEVEL = "fault_enumeration"
SUITES = pkt.suites()
NCASES = (len(SUITES) + 1) * 3     # suites + cleartext, x compression
BUDGET = {"quick": {"runs": NCASES * 4, "wall": 50}, "thorough": {"runs": NCASES * 400, "wall": 500}}
EXHAUSTIVE = True
RULE = ("Enumerated: every (cipher, MAC) suite plus cleartext x every compression x every payload "
        "length 1..4*blocksize+8 and 42 boundary lengths up to 70000; per run the short-write/"
        "timeout pattern of the socket is drawn from the seed.")
COMPONENTS = c01.COMPONENTS
ASSUMPTIONS = ["exhaustive over the stated concrete lengths only; the symbolic 2^32 range is not covered"]


def sim_kw(seed):
    return {"max_steps": 3_000_000, "max_time": 7200.0}


def scenario(sim):
    sim.p_switch = (0.02, 0.3)[sim.choose(2)]
    idx = sim.seed % NCASES
    comp = pkt.COMP_NAMES[idx % 3]
    si = idx // 3
    script = []
    if si < len(SUITES):
        cipher, mac = SUITES[si]
        ks = pkt.KeySet(sim, cipher, mac, comp, ("sha1", "sha256", "sha512")[sim.choose(3)], bool(sim.choose(2)))
        bs = pkt.Transport._cipher_info[cipher]["block-size"]
        if sim.choose(2):
            # a different suite first: the target suite is then reached through a RE-key, as after
            # an algorithm change between exchanges (state left over from the previous epoch matters)
            c0, m0 = SUITES[sim.choose(len(SUITES))]
            prev = pkt.KeySet(sim, c0, m0, comp, "sha256", ks.strict)
            script.append(("keys", prev))
            for n in (1, 5, 16, 33):
                script.append(("msg", bytes([94]) + sim.payload.randbytes(n - 1)))
            sim.probe("suite_reached_by_rekey")
        script.append(("keys", ks))
        name = ks.describe()
    else:
        ks = None
        bs = 8
        name = "cleartext"
    lengths = list(range(1, 4 * bs + 9)) + list(pkt.BOUNDARY_LENGTHS)
    for n in lengths:
        t = 1 + (n % 200)
        if t == 21:
            t = 94
        body = sim.payload.randbytes(n - 1) if n < 5000 else bytes([n % 251]) * (n - 1)
        script.append(("msg", bytes([t]) + body))
    st = pkt.run_stream(sim, script, authenticated=True)
    desc = {"suite": name, "lengths": "1..%d + boundaries" % (4 * bs + 8)}
    packets = c01.check_stream(sim, st, script, desc, True, prop="C03")
    for p in packets:
        bad = wiretap.check_framing(p)
        if bad:
            raise Violation(("C03", "framing", bad[0].split(" ")[0], p.framing),
                            "packet seq %d (%s, payload %d bytes): %s"
                            % (p.seqno, p.framing, len(p.raw_payload), "; ".join(bad)), desc)
        if ks is not None and p.epoch == (2 if len(st["keysets"]) == 2 else 1):
            exp_mac = 16 if p.framing == "gcm" else wiretap.MACS[ks.mac][2]
            if p.mac_len != exp_mac:
                raise Violation(("C03", "mac-length"), "MAC length %d, expected %d" % (p.mac_len, exp_mac), desc)
    sim.probe("packets_checked", len(packets))
    return {"sample": desc, "case_key": "%s#%d" % (name, idx), "nontrivial": True, "counts": [name]}
