"""C28 -- prefetched and vectored SFTP reads return exactly the file's bytes.

SFTP engine (real SFTPClient/SFTPFile prefetch + readv machinery incl. the
prefetch thread, against the real SFTPServer over a real channel of a simulated
transport pair).  Generated: file sizes 0..300 KiB; programs of prefetch()
(with file_size None / exact / too small / too large and max_concurrent_requests
None or 1..8), seeks, reads and readv() with overlapping, unordered, duplicate,
zero-length and beyond-EOF chunks; request size knob 32768 / 4096 / 1000.
Faults: the served handle returns arbitrary short reads; link latency; the
interleaving of prefetch thread, reader and server is drawn from the seed.
Oracle: every returned block equals file[offset : offset+length] truncated at
end of file; no call stays pending for 15 virtual seconds without any packet
moving in either direction (slow is not stuck)."""
import os
import random

from sim import core
from sim.core import Violation
from sim.sftpsim import SftpSession, Faults

PROPERTY = "C28"
LEVEL = "exploration"
BUDGET = {"quick": {"runs": 1400, "wall": 45}, "thorough": {"runs": 60000, "wall": 570}}
RULE = ("Each run: one file (0..300 KiB), a program of 2-14 steps of prefetch / seek / read / readv (1-6 chunks that may "
        "overlap, repeat, be empty or lie beyond EOF), optional short server reads, request size 32768/4096/1000, "
        "latency 0/2/20 ms, seeded scheduling of reader, prefetch thread and server.")
COMPONENTS = {"real": ["SFTPFile.prefetch/readv/_read_prefetch/_prefetch_thread/_async_response, SFTPClient._read_response, "
                       "BufferedFile.read/seek, SFTPServer, SFTPHandle, transports, channel"],
              "harness": ["SFTPServerInterface over the scratch directory; its handle may shorten reads"],
              "simulated": ["socket", "clock", "scheduling", "entropy"]}
ASSUMPTIONS = ["the file is not modified while it is read"]
MINIMIZE_CASES = True
SIZES = (0, 1, 1000, 32767, 32768, 32769, 65536, 100000, 200000, 300000)
T_STEP = 15.0      # virtual seconds without any packet in either direction while a call is pending


def sim_kw(seed):
    return {"max_steps": 6_000_000, "max_time": 7200.0}


def content(seed, n):
    return random.Random(seed).randbytes(n)


def gen_case(sim):
    size = SIZES[sim.choose(len(SIZES))]
    steps = []

    def off():
        k = sim.choose(8)
        if k == 0:
            return 0
        if k == 1:
            return size
        if k == 2:
            return size + 1 + sim.choose(50000)
        if k == 3:
            return max(0, size - 1 - sim.choose(min(size, 40000) + 1))
        if k == 4:
            return 32768 * sim.choose(4) + sim.choose(3) - 1 if size > 32768 else 0
        return sim.choose(size + 1)

    def ln():
        return (0, 1, 100, 5000, 32768, 32769, 40000, 70000, 200000)[sim.choose(9)]
    for _ in range(2 + sim.choose(13)):
        k = sim.choose(10)
        if k < 2:
            fs = ("stat", "exact", "small", "large")[sim.choose(4, p0=0.5)]
            steps.append(["prefetch", fs, (None, None, 1, 2, 3, 8)[sim.choose(6)]])
        elif k < 5:
            steps.append(["read", ln()])
        elif k < 7:
            steps.append(["seek", max(0, off()), 0])
        elif k == 7:
            steps.append(["seek", sim.choose(2001) - 1000, 1])
        else:
            chunks = []
            for _ in range(1 + sim.choose(6)):
                if chunks and sim.choose(4) == 0:
                    base = chunks[sim.choose(len(chunks))]
                    chunks.append([max(0, base[0] + sim.choose(2001) - 1000), ln()] if sim.choose(2) else list(base))
                else:
                    chunks.append([max(0, off()), ln()])
            steps.append(["readv", chunks, (None, None, 1, 4)[sim.choose(4)]])
    return {"size": size, "data_seed": sim.choose(1000), "short_reads": bool(sim.choose(3) == 0),
            "req_size": (32768, 32768, 4096, 1000)[sim.choose(4)], "bufsize": (-1, 0, 1024, 65536)[sim.choose(4)],
            "steps": steps}


def describe(case, upto=None):
    steps = case["steps"] if upto is None else case["steps"][:upto + 1]
    return "%s%s" % (" ".join(s[0] for s in steps), " short-reads" if case["short_reads"] else "")


def scenario(sim):
    sim.p_switch = (0.02, 0.1, 0.3, 0.6)[sim.choose(4)]
    case = sim.case if getattr(sim, "case", None) is not None else gen_case(sim)
    faults = Faults(sim)
    if case["short_reads"]:
        faults.p_short_read = 0.4
    s = SftpSession(sim, latency=(0.0, 0.002, 0.02)[sim.choose(3)], faults=faults)
    sim.c28 = {"case": case, "step": None}
    try:
        run_case(sim, s, case)
    finally:
        s.close()
    # distinct = distinct (size, request size, short reads, step-kind sequence with chunk counts)
    key = "%d|%d|%s|%s" % (case["size"], case["req_size"], case["short_reads"],
                           " ".join(st[0] + (str(len(st[1])) if st[0] == "readv" else "") for st in case["steps"]))
    return {"sample": dict(case, steps=[st[:3] for st in case["steps"][:8]]),
            "nontrivial": any(st[0] in ("prefetch", "readv") for st in case["steps"]), "case_key": key,
            "counts": sorted(set(st[0] for st in case["steps"]))}


def run_case(sim, s, case):
    data = content(case["data_seed"], case["size"])
    size = len(data)
    s.put_both("p.bin", data)
    f = s.sftp.open("p.bin", "rb", case["bufsize"])
    if case["req_size"] != 32768:
        f.MAX_REQUEST_SIZE = case["req_size"]
    pos = [0]
    box = {}
    cur = {"i": None, "t0": 0.0}

    def fail(fp, msg, i):
        raise Violation(fp, msg, {"case": case, "pattern": describe(case, i)})

    def program():
        try:
            for i, st in enumerate(case["steps"]):
                cur["i"], cur["t0"] = i, sim.now
                sim.c28["step"] = i
                kind = st[0]
                if kind == "prefetch":
                    fs = {"stat": None, "exact": size, "small": size // 2, "large": size + 70000}[st[1]]
                    f.prefetch(fs, st[2])
                elif kind == "seek":
                    target = st[1] if st[2] == 0 else max(0, pos[0] + st[1])
                    f.seek(target, 0)
                    pos[0] = target
                elif kind == "read":
                    got = f.read(st[1])
                    want = data[pos[0]:pos[0] + st[1]]
                    if got != want:
                        box["bad"] = (i, "read(%d) at %d" % (st[1], pos[0]), got, want)
                        return
                    pos[0] += len(got)
                    sim.probe("reads_checked")
                else:
                    out = list(f.readv([tuple(c) for c in st[1]], st[2]))
                    for j, (c, got) in enumerate(zip(st[1], out)):
                        want = data[c[0]:c[0] + c[1]]
                        if got != want:
                            box["bad"] = (i, "readv chunk %d (offset %d, length %d) of %s" % (j, c[0], c[1], st[1]), got, want)
                            return
                    if len(out) != len(st[1]):
                        box["bad"] = (i, "readv yielded %d blocks for %d chunks" % (len(out), len(st[1])), b"", b"")
                        return
                    if st[1]:
                        pos[0] = st[1][-1][0] + len(out[-1])
                    sim.probe("readv_checked")
            cur["i"] = None
            f.close()
            box["ok"] = True
        except Exception as e:
            box["exc"] = e

    task = sim.spawn(program, "reader")
    last_events, last_change = sim.nevents, sim.now
    while task.state != core.DONE:
        sim.join_task(task, 1.0)
        if sim.nevents != last_events:
            last_events, last_change = sim.nevents, sim.now      # packets still flow: slow is not stuck
        if task.state != core.DONE and cur["i"] is not None and sim.now - max(cur["t0"], last_change) > T_STEP:
            i = cur["i"]
            fail(("C28", "call-never-returns", case["steps"][i][0], core.where_parked(task)),
                 "step %d %s has been blocked for %.0f virtual seconds, the last %.0f without any packet; parked in %s; program: %s"
                 % (i, case["steps"][i][:3], sim.now - cur["t0"], sim.now - last_change, core.where_parked(task), describe(case, i)), i)
    if "bad" in box:
        i, what, got, want = box["bad"]
        j = 0
        while j < min(len(got), len(want)) and got[j] == want[j]:
            j += 1
        how = ("short" if len(got) < len(want) and j == len(got) else
               "long" if len(got) > len(want) and j == len(want) else "wrong-bytes")
        fail(("C28", "wrong-data", case["steps"][i][0], how),
             "step %d: %s returned %d bytes, expected %d, first difference at %d (file size %d, request size %d%s); program: %s"
             % (i, what, len(got), len(want), j, size, case["req_size"], ", short server reads" if case["short_reads"] else "",
                describe(case, i)), i)
    if "exc" in box:
        i = cur["i"] if cur["i"] is not None else len(case["steps"]) - 1
        fail(("C28", "call-raised", case["steps"][i][0] if cur["i"] is not None else "close", type(box["exc"]).__name__),
             "step %s raised %r; program: %s" % (cur["i"], box["exc"], describe(case, i)), i)


def on_hang(sim, exc):
    info = getattr(sim, "c28", None)
    if not info:
        return None
    msg = str(exc)
    if "budget exceeded: steps" in msg:
        return None
    case, i = info["case"], info["step"]
    where = "?"
    for t in sim.tasks:
        if t.name == "reader" and t.state != core.DONE:
            where = core.where_parked(t)
    if sim.spin_info:
        where = " < ".join(sim.spin_info[1][:3])
    kind = case["steps"][i][0] if i is not None else "?"
    return Violation(("C28", "call-never-returns", kind, where),
                     "step %s: %s (reader in %s); program: %s" % (i, msg[:100], where, describe(case, i)), {"case": case})


def same_class(fp_a, fp_b):
    return list(fp_a[:2]) == list(fp_b[:2])


def case_candidates(case):
    steps = case["steps"]
    n = len(steps)

    def with_(**kw):
        c = dict(case)
        c.update(kw)
        return c
    size = n // 2
    while size >= 1:
        for i in range(0, n, size):
            yield with_(steps=steps[:i] + steps[i + size:])
        size //= 2
    if case["short_reads"]:
        yield with_(short_reads=False)
    if case["req_size"] != 32768:
        yield with_(req_size=32768)
    if case["bufsize"] not in (-1,):
        yield with_(bufsize=-1)
    for small in SIZES:
        if small < case["size"]:
            yield with_(size=small)
    for i, st in enumerate(steps):
        if st[0] == "readv" and len(st[1]) > 1:
            for j in range(len(st[1])):
                yield with_(steps=steps[:i] + [["readv", st[1][:j] + st[1][j + 1:], st[2]]] + steps[i + 1:])
        if st[0] == "readv" and st[2] is not None:
            yield with_(steps=steps[:i] + [["readv", st[1], None]] + steps[i + 1:])
        if st[0] == "prefetch" and (st[1] != "stat" or st[2] is not None):
            yield with_(steps=steps[:i] + [["prefetch", "stat", None]] + steps[i + 1:])
        if st[0] == "read" and st[1] > 100:
            yield with_(steps=steps[:i] + [["read", 100]] + steps[i + 1:])
