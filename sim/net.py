"""Simulated stream sockets joined by a Link (DESIGN 3.4)."""
import errno
import socket as _socket

from . import core
from .core import SimAbort

_get_ident = core._get_ident

EOF = object()
RESET = object()
RESET1 = object()     # like RESET, but the socket-like object reports it as OSError with a single argument


class NetKnobs:
    """Per-run fault knobs for one socket's I/O."""

    def __init__(self):
        self.p_frag = 0.0         # recv returns a strict prefix
        self.frag_one = False     # ... always exactly one byte
        self.p_short = 0.0        # send accepts a strict prefix
        self.p_rx_timeout = 0.0   # recv raises timeout/EAGAIN although alive
        self.p_tx_timeout = 0.0   # send raises timeout/EAGAIN
        self.eagain = False       # use socket.error(EAGAIN) instead of timeout
        self.max_tx_timeouts = 50


class SimSocket:
    """What Transport documents it needs: send, recv, close, settimeout."""

    def __init__(self, sim, name, knobs=None):
        self.sim = sim
        self.name = name
        self.knobs = knobs or NetKnobs()
        self.peer = None
        self.link = None
        self.side = None
        self.rxbuf = bytearray()
        self.rx_eof = False
        self.rx_reset = False
        self.reset_one_arg = False
        self.rxq = []
        self.closed = False
        self._closed = False
        self.timeout = None
        self.tx_shutdown = False
        self.blackhole = False
        self.tx_timeouts = 0
        self.bytes_rx = 0
        self.bytes_tx = 0
        self.on_recv_block = None   # hook(sock) called when recv is about to block

    # -- socket API ---------------------------------------------------
    def settimeout(self, t):
        self.timeout = t

    def gettimeout(self):
        return self.timeout

    def getpeername(self):
        return ("sim-" + (self.peer.name if self.peer else "?"), 22)

    def getsockname(self):
        return ("sim-" + self.name, 22)

    def fileno(self):
        raise OSError("simulated socket has no descriptor")

    def _reset_exc(self):
        if self.reset_one_arg:
            return _socket.error("connection broken")
        return _socket.error(errno.ECONNRESET, "Connection reset by peer")

    def _timeout_exc(self):
        if self.knobs.eagain:
            return _socket.error(errno.EAGAIN, "Resource temporarily unavailable")
        return _socket.timeout("timed out")

    def send(self, data):
        sim = self.sim
        if sim.aborting:
            raise SimAbort()
        if not sim.holder():
            return len(data)
        sim.step()
        if self.closed:
            raise _socket.error(errno.EBADF, "Bad file descriptor")
        if self.rx_reset:
            raise self._reset_exc()
        if self.tx_shutdown:
            raise _socket.error(errno.EPIPE, "Broken pipe")
        k = self.knobs
        n = len(data)
        if n == 0:
            return 0
        if (k.p_tx_timeout and self.timeout is not None
                and self.tx_timeouts < k.max_tx_timeouts
                and sim.choose_bool(k.p_tx_timeout)):
            self.tx_timeouts += 1
            sim.fault("tx_timeout")
            raise self._timeout_exc()
        if k.p_short and n > 1 and sim.choose_bool(k.p_short):
            n = 1 + sim.choose(n - 1)
            sim.fault("short_write")
        chunk = bytes(data[:n])
        self.bytes_tx += n
        self.link._transmit(self, chunk)
        return n

    sendall_raw = None

    def sendall(self, data):
        data = bytes(data)
        while data:
            n = self.send(data)
            data = data[n:]

    def recv(self, n):
        sim = self.sim
        if sim.aborting:
            raise SimAbort()
        if not sim.holder():
            return b""
        sim.step()
        k = self.knobs
        while True:
            if self.closed:
                raise _socket.error(errno.EBADF, "Bad file descriptor")
            if self.rxbuf:
                if (k.p_rx_timeout and self.timeout is not None
                        and sim.choose_bool(k.p_rx_timeout)):
                    sim.fault("rx_timeout")
                    raise self._timeout_exc()
                avail = min(n, len(self.rxbuf))
                if avail > 1 and k.p_frag and sim.choose_bool(k.p_frag):
                    avail = 1 if k.frag_one else 1 + sim.choose(avail - 1)
                    sim.fault("fragment")
                out = bytes(self.rxbuf[:avail])
                del self.rxbuf[:avail]
                self.bytes_rx += avail
                return out
            if self.rx_reset:
                raise self._reset_exc()
            if self.rx_eof:
                return b""
            if self.timeout is not None and self.timeout <= 0:
                raise self._timeout_exc()
            hook = self.on_recv_block
            if hook is not None:
                hook(self)
            notified = sim.block(self.rxq, self.timeout)
            if not notified and not self.rxbuf and not self.rx_eof \
                    and not self.rx_reset and not self.closed:
                raise self._timeout_exc()

    def recv_ready(self):
        return bool(self.rxbuf) or self.rx_eof

    def close(self):
        sim = self.sim
        if self.closed:
            return
        self.closed = True
        self._closed = True
        if sim.aborting or not sim.holder():
            return
        sim.record("sock_close", self.name)
        if self.rxq:
            sim.wake_all(self.rxq)
        if self.link is not None and not self.tx_shutdown:
            self.tx_shutdown = True
            self.link._transmit(self, EOF)

    def shutdown(self, how):
        if how in (_socket.SHUT_WR, _socket.SHUT_RDWR) and not self.tx_shutdown:
            self.tx_shutdown = True
            self.link._transmit(self, EOF)

    # -- delivery (called from the event heap) ---------------------------
    def _deliver(self, item):
        if self.closed:
            return
        if item is EOF:
            self.rx_eof = True
        elif item is RESET or item is RESET1:
            self.rx_reset = True
            self.reset_one_arg = item is RESET1
            del self.rxbuf[:]
        else:
            self.rxbuf += item
        if self.rxq:
            self.sim.wake_all(self.rxq)


class Link:
    """Two SimSockets, a FIFO per direction, optional tap (MITM)."""

    def __init__(self, sim, name_a="client", name_b="server", latency=(0.0, 0.0),
                 jitter=0.0, knobs_a=None, knobs_b=None):
        self.sim = sim
        self.a = SimSocket(sim, name_a, knobs_a)
        self.b = SimSocket(sim, name_b, knobs_b)
        self.a.peer, self.b.peer = self.b, self.a
        self.a.link = self.b.link = self
        self.a.side, self.b.side = 0, 1
        self.latency = list(latency)    # per direction, seconds
        self.jitter = jitter
        self.last_delivery = [0.0, 0.0]
        self.inflight = [0, 0]
        self.wire = [[], []]            # accepted segments per direction
        self.record_wire = True
        self.tap = None                 # fn(link, direction, bytes) -> list of bytes|EOF
        self.on_segment = None          # observer fn(link, direction, bytes)
        self.stopped = [False, False]   # black hole per direction
        self.p_split = 0.0              # a segment arrives in two parts ...
        self.split_delay = (0.15, 0.35) # ... the second one this much later (range)

    def socks(self):
        return self.a, self.b

    def _transmit(self, src, item):
        sim = self.sim
        d = src.side
        if item is not EOF and item is not RESET and item is not RESET1:
            if self.record_wire:
                self.wire[d].append((sim.seq, sim.now, item))
            if self.on_segment is not None:
                self.on_segment(self, d, item)
            if self.tap is not None:
                items = self.tap(self, d, item)
            else:
                items = (item,)
        else:
            items = (item,)
        for it in items:
            if (self.p_split and it is not EOF and it is not RESET and it is not RESET1 and len(it) > 1
                    and sim.choose_bool(self.p_split)):
                k = 1 + sim.choose(min(len(it) - 1, 40))
                sim.fault("segment_split_with_delay")
                self._schedule(d, it[:k])
                lo, hi = self.split_delay
                self._schedule(d, it[k:], extra=lo + (hi - lo) * (sim.choose(8) / 8.0))
            else:
                self._schedule(d, it)

    def inject(self, d, item):
        """Put bytes (or EOF/RESET) on the wire in direction d (0: a->b)."""
        self._schedule(d, item)

    def _schedule(self, d, item, extra=0.0):
        sim = self.sim
        if self.stopped[d]:
            sim.fault("blackholed")
            return
        dst = self.b if d == 0 else self.a
        delay = self.latency[d] + extra
        if self.jitter:
            delay += self.jitter * (sim.choose(8) / 8.0)
        when = max(self.last_delivery[d], sim.now + delay)
        self.last_delivery[d] = when
        self.inflight[d] += 1

        def deliver():
            self.inflight[d] -= 1
            dst._deliver(item)

        if when <= sim.now:
            deliver()
        else:
            sim.at(when, deliver)

    # -- faults ----------------------------------------------------------
    def cut(self, d=None, kind="eof"):
        """Connection loss seen by the receiver(s) of direction d (None: both)."""
        for dd in ((0, 1) if d is None else (d,)):
            self._schedule(dd, EOF if kind == "eof" else RESET1 if kind == "reset1" else RESET)
        self.sim.fault("link_" + kind)

    def quiet(self):
        return self.inflight[0] == 0 and self.inflight[1] == 0
