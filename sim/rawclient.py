"""Byzantine SSH client driver and recording server application for the
authentication properties (C14, C15, C16).

The adversary is a real client Transport (so key exchange, framing, keys and
sequence numbers are valid) whose incoming auth/connection-layer messages are
swallowed (and logged) and which emits hand-built messages through its own
packetizer.  The victim server is an unmodified Transport whose application
callbacks answer from a seeded script and log every call."""
import struct

from paramiko import Message, ServerInterface, InteractiveQuery
from paramiko.common import (AUTH_SUCCESSFUL, AUTH_PARTIALLY_SUCCESSFUL, AUTH_FAILED, OPEN_SUCCEEDED)

from . import ssh, core
from .net import Link

RESULT_NAMES = {AUTH_SUCCESSFUL: "SUCCESS", AUTH_PARTIALLY_SUCCESSFUL: "PARTIAL", AUTH_FAILED: "FAILED"}


def sstr(b):
    if isinstance(b, str):
        b = b.encode("utf-8")
    return struct.pack(">I", len(b)) + b


class RecordingServer(ServerInterface):
    """Every callback is logged as (seq, time, name, args..., result)."""

    def __init__(self, sim, weights=(2, 1, 3), gss=False, interactive_rounds=1, banner=None):
        self.sim = sim
        self.log = []
        self.weights = weights          # SUCCESS, PARTIAL, FAILED
        self.gss = gss
        self.rounds_left = 0
        self.interactive_rounds = interactive_rounds
        self.forced = None              # force next result (for targeted cases)

    def _verdict(self):
        if self.forced is not None:
            r, self.forced = self.forced, None
            return r
        w = self.weights
        k = self.sim.choose(sum(w))
        if k < w[0]:
            return AUTH_SUCCESSFUL
        if k < w[0] + w[1]:
            return AUTH_PARTIALLY_SUCCESSFUL
        return AUTH_FAILED

    def _rec(self, name, *a):
        self.log.append((self.sim.record("callback", name), self.sim.now, name) + a)

    def get_allowed_auths(self, username):
        return "password,publickey,keyboard-interactive,gssapi-with-mic,gssapi-keyex,none"

    def enable_auth_gssapi(self):
        return self.gss

    def check_auth_none(self, username):
        r = self._verdict()
        self._rec("auth", "none", username, None, r)
        return r

    def check_auth_password(self, username, password):
        r = self._verdict()
        self._rec("auth", "password", username, password, r)
        return r

    def check_auth_publickey(self, username, key):
        r = self._verdict()
        self._rec("auth", "publickey", username, key.get_name(), r)
        return r

    def check_auth_interactive(self, username, submethods):
        k = self.sim.choose(4)
        if k == 0:
            r = self._verdict()
            self._rec("auth", "keyboard-interactive", username, "direct", r)
            return r
        self.rounds_left = self.interactive_rounds
        self._rec("auth", "keyboard-interactive", username, "query", "QUERY")
        q = InteractiveQuery("t", "i")
        q.add_prompt("p?", False)
        return q

    def check_auth_interactive_response(self, responses):
        if self.rounds_left > 1:
            self.rounds_left -= 1
            self._rec("auth", "keyboard-interactive-response", None, list(responses), "QUERY")
            q = InteractiveQuery("t2", "i2")
            q.add_prompt("again?", True)
            return q
        r = self._verdict()
        self._rec("auth", "keyboard-interactive-response", None, list(responses), r)
        return r

    def check_auth_gssapi_with_mic(self, username, gss_authenticated=AUTH_FAILED, cc_file=None):
        r = self._verdict()
        self._rec("auth", "gssapi-with-mic", username, gss_authenticated, r)
        return r

    def check_auth_gssapi_keyex(self, username, gss_authenticated=AUTH_FAILED, cc_file=None):
        r = self._verdict()
        self._rec("auth", "gssapi-keyex", username, gss_authenticated, r)
        return r

    # connection layer (C15)
    def check_channel_request(self, kind, chanid):
        self._rec("conn", "channel_request", kind, chanid)
        return OPEN_SUCCEEDED

    def check_channel_direct_tcpip_request(self, chanid, origin, destination):
        self._rec("conn", "direct_tcpip", chanid)
        return OPEN_SUCCEEDED

    def check_global_request(self, kind, msg):
        self._rec("conn", "global_request", kind)
        return True

    def check_port_forward_request(self, address, port):
        self._rec("conn", "port_forward", address, port)
        return 4242

    def cancel_port_forward_request(self, address, port):
        self._rec("conn", "cancel_port_forward", address, port)

    def check_channel_exec_request(self, channel, command):
        self._rec("conn", "exec", command)
        return True

    def check_channel_shell_request(self, channel):
        self._rec("conn", "shell")
        return True

    def check_channel_pty_request(self, channel, *a):
        self._rec("conn", "pty")
        return True

    def check_channel_subsystem_request(self, channel, name):
        self._rec("conn", "subsystem", name)
        return False

    def check_channel_env_request(self, channel, name, value):
        self._rec("conn", "env")
        return True

    def check_channel_window_change_request(self, channel, *a):
        self._rec("conn", "window-change")
        return True

    def check_channel_x11_request(self, channel, *a):
        self._rec("conn", "x11")
        return True

    def check_channel_forward_agent_request(self, channel):
        self._rec("conn", "agent")
        return True


class StubGSS:
    """Stands in for paramiko.ssh_gss.GSSAuth on the server (python-gssapi is
    not installed).  MIC / context results are scripted."""

    def __init__(self, sim, mic_ok=True, ctx_ok=True):
        self.sim, self.mic_ok, self.ctx_ok = sim, mic_ok, ctx_ok
        self.calls = []

    def __call__(self, method, deleg=True):
        return self

    def ssh_check_mech(self, mech):
        return True

    def ssh_gss_oids(self, mode="client"):
        return b"\x06\x09\x2a\x86\x48\x86\xf7\x12\x01\x02\x02"

    def ssh_accept_sec_context(self, hostname, recv_token, username=None):
        self.calls.append(("accept", username))
        if not self.ctx_ok:
            raise RuntimeError("stub: context refused")
        return None

    def ssh_check_mic(self, mic_token, session_id, username=None):
        self.calls.append(("check_mic", username))
        if not self.mic_ok:
            raise RuntimeError("stub: bad MIC")

    def set_username(self, u):
        pass

    credentials_delegated = False


class RawSession:
    """Connected (key exchange done), unauthenticated pair + raw client."""

    def __init__(self, sim, server=None, latency=0.0, server_kw=None, keys=("rsa1",)):
        self.sim = sim
        self.plog = []
        self.armed = False
        self.swallowed = []

        def filter_in(pk, ptype, payload):
            if self.armed and (ptype in (6, 3) or 50 <= ptype <= 100):
                self.swallowed.append((sim.seq, ptype, payload))
                return True
            return False

        self.link = Link(sim, latency=(latency, latency))
        self.server = server or RecordingServer(sim)
        self.p = ssh.Pair(sim, link=self.link, plog=self.plog, server=self.server, host_keys=keys,
                          client_pk=ssh.byzantine_packetizer("c", self.plog, filter_in=filter_in),
                          server_pk=ssh.observing_packetizer("s", self.plog), server_kw=server_kw)
        self.p.start(timeout=60)
        self.p.wait_server()
        self.armed = True
        self.tc, self.ts = self.p.tc, self.p.ts
        self.sent = []          # request descriptors in send order (USERAUTH_REQUEST only)

    # -- sending ----------------------------------------------------------
    def raw(self, payload):
        m = Message()
        m.add_bytes(payload)
        try:
            self.tc.packetizer.send_message(m)
            return True
        except (EOFError, OSError):
            return False

    def settle(self, limit=15):
        return ssh.quiesce(self.sim, [self.link], (), settle=0.15, limit=limit)

    def service_request(self, name="ssh-userauth"):
        return self.raw(bytes([5]) + sstr(name))

    def _req(self, user, service, method, rest, **desc):
        d = dict(index=len(self.sent), user=user, service=service, method=method, **desc)
        ok = self.raw(bytes([50]) + sstr(user) + sstr(service) + sstr(method) + rest)
        d["sent"] = ok
        self.sent.append(d)
        return d

    def auth_none(self, user, service="ssh-connection"):
        return self._req(user, service, "none", b"")

    def auth_password(self, user, pw, service="ssh-connection", change=False):
        rest = (b"\x01" if change else b"\x00") + sstr(pw) + (sstr("new" + pw) if change else b"")
        return self._req(user, service, "password", rest, password=pw, change=change)

    def pk_blob(self, user, service, algo, keyblob, session_id=None):
        sid = self.tc.session_id if session_id is None else session_id
        return (sstr(sid) + bytes([50]) + sstr(user) + sstr(service) + sstr("publickey") + b"\x01"
                + sstr(algo) + sstr(keyblob))

    def auth_pk_probe(self, user, key, algo=None, service="ssh-connection"):
        algo = algo or pk_algo(key)
        return self._req(user, service, "publickey", b"\x00" + sstr(algo) + sstr(key.asbytes()),
                         probe=True, valid_sig=False, algo=algo)

    def auth_pk(self, user, key, algo=None, service="ssh-connection", alter=None, foreign_sig=None):
        """alter: None | 'session' | 'user' | 'service' | 'algo' | 'key' | 'sigbytes'
        -- exactly one field of what is SIGNED differs from what is SENT (or the
        signature bytes are corrupted); foreign_sig: a signature blob captured
        in another session, sent verbatim."""
        algo = algo or pk_algo(key)
        keyblob = key.asbytes()
        s_user, s_service, s_algo, s_key, sid = user, service, algo, keyblob, self.tc.session_id
        if alter == "session":
            sid = bytes(len(sid))
        elif alter == "user":
            s_user = user + "x"
        elif alter == "service":
            s_service = "ssh-userauth"
        elif alter == "algo":
            s_algo = {"rsa-sha2-512": "rsa-sha2-256", "rsa-sha2-256": "rsa-sha2-512"}.get(algo, algo + "x")
        elif alter == "key":
            s_key = ssh.key("rsa2").asbytes() if key is not ssh.key("rsa2") else ssh.key("rsa1").asbytes()
        if foreign_sig is not None:
            sig = foreign_sig
            valid = False
        else:
            blob = (sstr(sid) + bytes([50]) + sstr(s_user) + sstr(s_service) + sstr("publickey") + b"\x01"
                    + sstr(s_algo) + sstr(s_key))
            sigalgo = algo if alter != "algo" else algo
            sig = key.sign_ssh_data(blob, sigalgo).asbytes()
            if alter == "sigbytes":
                sig = sig[:-1] + bytes([sig[-1] ^ 0x01])
            elif alter in ("sig-relabel", "sig-junk-relabel"):
                # the name inside the signature blob is not the algorithm of the request (another real name, the
                # empty name, the certificate form); the bytes behind it are the genuine ones or junk
                nlen = struct.unpack_from(">I", sig, 0)[0]
                name = sig[4:4 + nlen]
                raw = sig[8 + nlen:]
                other = [x for x in (b"ssh-rsa", b"rsa-sha2-256", b"", name + b"-cert-v01@openssh.com", b"ssh-ed25519",
                                     name + b"x") if x != name]
                name = other[self.sim.choose(len(other))]
                if alter == "sig-junk-relabel":
                    raw = bytes(len(raw))
                sig = sstr(name) + sstr(raw)
            elif alter in ("sig-short", "sig-long", "sig-empty", "sig-negative"):
                # structurally malformed signature blob: string name, string raw
                nlen = struct.unpack_from(">I", sig, 0)[0]
                name = sig[4:4 + nlen]
                raw = sig[8 + nlen:]
                if alter == "sig-short":
                    raw = raw[:-1]
                elif alter == "sig-long":
                    raw = raw + b"\x00"
                elif alter == "sig-empty":
                    raw = b""
                else:       # first inner integer made negative (ECDSA r) / top bit set
                    raw = (raw[:4] + bytes([raw[4] | 0x80]) + raw[5:]) if len(raw) > 5 else b"\x80"
                sig = sstr(name) + sstr(raw)
            valid = alter is None
        # ground truth: does the signature that is SENT verify, independently of paramiko, over the
        # blob built from THIS session's id and exactly the fields that are sent?
        from .kexoracle import verify_sig, parse_sig
        try:
            ok, _, sname = verify_sig(keyblob, sig, self.pk_blob(user, service, algo, keyblob))
            valid = bool(ok) and sname == algo.replace("-cert-v01@openssh.com", "")
        except Exception:
            valid = False
        d = self._req(user, service, "publickey", b"\x01" + sstr(algo) + sstr(keyblob) + sstr(sig),
                      probe=False, valid_sig=valid, alter=alter, foreign=foreign_sig is not None, algo=algo)
        d["sig"] = sig
        return d

    def auth_kbdint(self, user, service="ssh-connection"):
        return self._req(user, service, "keyboard-interactive", sstr("") + sstr(""))

    def info_response(self, answers=("a",)):
        p = bytes([61]) + struct.pack(">I", len(answers))
        for a in answers:
            p += sstr(a)
        ok = self.raw(p)
        self.sent_other = getattr(self, "sent_other", [])
        self.sent_other.append(("info_response", ok))
        return ok

    def auth_gss_mic_start(self, user, service="ssh-connection", nmech=1):
        oid = b"\x06\x09\x2a\x86\x48\x86\xf7\x12\x01\x02\x02"
        return self._req(user, service, "gssapi-with-mic", struct.pack(">I", nmech) + sstr(oid))

    def gss_token(self, tok=b"tok"):
        return self.raw(bytes([61]) + sstr(tok))

    def gss_mic(self, mic=b"mic"):
        return self.raw(bytes([66]) + sstr(mic))

    def auth_gss_keyex(self, user, service="ssh-connection", mic=b"mic"):
        return self._req(user, service, "gssapi-keyex", sstr(mic))

    # -- reading the history ------------------------------------------------
    def server_events(self):
        """Merged, seq-ordered list of ('rx'|'tx', seq, ptype, payload) for the
        server plus ('cb', seq, entry) for its application callbacks."""
        ev = []
        for e in self.plog:
            if e[2] == "s":
                ev.append((e[0], e[3], e[4], e[5]))
        for c in self.server.log:
            ev.append((c[0], "cb", None, c))
        ev.sort(key=lambda x: x[0])
        return ev

    def close(self):
        self.p.close()


def pk_algo(key):
    n = key.get_name()
    return "rsa-sha2-512" if n == "ssh-rsa" else n


def parse_failure(payload):
    """USERAUTH_FAILURE -> (methods, partial)"""
    n = struct.unpack_from(">I", payload, 1)[0]
    methods = payload[5:5 + n].decode("ascii", "replace")
    partial = payload[5 + n] != 0
    return methods, partial
