"""SFTP engine: real SFTPClient and real SFTPServer over a real channel of a
simulated transport pair ('full' wiring), with a harness SFTPServerInterface
over a per-run scratch directory (modelled on tests/_stub_sftp.py) whose file
handles can inject short reads and failing reads/writes."""
import errno
import os
import shutil
import tempfile

import paramiko
from paramiko import (SFTPServer, SFTPServerInterface, SFTPHandle, SFTPAttributes, SFTPClient,
                      SFTP_OK, SFTP_FAILURE)
from paramiko.common import o666

from . import ssh, core
from .net import Link


class Faults:
    """Fault plan for file handles (shared by all handles of a session)."""

    def __init__(self, sim):
        self.sim = sim
        self.p_short_read = 0.0
        self.fail_read_at = None      # (k-th read call, status) -> return status
        self.fail_write_at = None     # (k-th write call, status)
        self.short_write_at = None    # not expressible in SFTP (write is all-or-error); kept for symmetry
        self.cut_at = None            # ("read"|"write", k, kind): the link is lost while the k-th op is served
        self.link = None              # set by SftpSession
        self.reads = 0
        self.writes = 0
        self.log = []                 # (op, k, offset, length, outcome) of every handle read/write
        self.p_raise = 0.0            # an application callback (handle or server-interface method) raises
        self.raised = []              # (method, "before"|"after")

    def pick_raise(self, name):
        """-> None, "before" (the callback fails before doing anything) or "after" (it did its work, then
        failed: a delayed error such as ENOSPC at close).  Drawn from the run's PRNG by the calling task."""
        if not self.p_raise or not self.sim.holder():
            return None
        if not self.sim.choose_bool(self.p_raise):
            return None
        when = ("before", "after")[self.sim.choose(2)]
        self.sim.fault("callback_raised")
        self.raised.append((name, when))
        return when

    def maybe_cut(self, op, k):
        c = self.cut_at
        if c is not None and c[0] == op and c[1] == k and self.link is not None:
            self.cut_at = None
            delay = c[3] if len(c) > 3 else 0
            if delay:
                # the k-th operation is still served and answered; the link goes right behind the answer
                link, kind = self.link, c[2]
                self.sim.after(delay * 1e-6, lambda: link.cut(None, kind))
            else:
                self.link.cut(None, c[2])


class Handle(SFTPHandle):
    faults = None

    def stat(self):
        try:
            return SFTPAttributes.from_stat(os.fstat(self.readfile.fileno()))
        except OSError as e:
            return SFTPServer.convert_errno(e.errno)

    def chattr(self, attr):
        try:
            self.readfile.flush()
            SFTPServer.set_file_attr(self.filename, attr)
            return SFTP_OK
        except OSError as e:
            return SFTPServer.convert_errno(e.errno)

    def read(self, offset, length):
        f = self.faults
        if f is not None:
            k = f.reads
            f.reads += 1
            f.maybe_cut("read", k)
            if f.fail_read_at is not None and f.fail_read_at[0] == k:
                f.sim.fault("read_failed")
                f.log.append(("read", k, offset, length, "status %d" % f.fail_read_at[1]))
                return f.fail_read_at[1]
            if f.p_short_read and length > 1 and f.sim.choose_bool(f.p_short_read):
                length = 1 + f.sim.choose(length - 1)
                f.sim.fault("short_read")
        return SFTPHandle.read(self, offset, length)

    def write(self, offset, data):
        f = self.faults
        if f is not None:
            k = f.writes
            f.writes += 1
            f.maybe_cut("write", k)
            if f.fail_write_at is not None and f.fail_write_at[0] == k:
                f.sim.fault("write_failed")
                f.log.append(("write", k, offset, len(data), "status %d" % f.fail_write_at[1]))
                return f.fail_write_at[1]
        return SFTPHandle.write(self, offset, data)


class StubSFTP(SFTPServerInterface):
    ROOT = None
    faults = None

    def __init__(self, server, *a, **kw):
        SFTPServerInterface.__init__(self, server, *a, **kw)

    def _realpath(self, path):
        return self.ROOT + self.canonicalize(path)

    def list_folder(self, path):
        path = self._realpath(path)
        try:
            out = []
            for fname in sorted(os.listdir(path)):
                attr = SFTPAttributes.from_stat(os.stat(os.path.join(path, fname)))
                attr.filename = fname
                out.append(attr)
            return out
        except OSError as e:
            return SFTPServer.convert_errno(e.errno)

    def stat(self, path):
        try:
            return SFTPAttributes.from_stat(os.stat(self._realpath(path)))
        except OSError as e:
            return SFTPServer.convert_errno(e.errno)

    def lstat(self, path):
        try:
            return SFTPAttributes.from_stat(os.lstat(self._realpath(path)))
        except OSError as e:
            return SFTPServer.convert_errno(e.errno)

    def open(self, path, flags, attr):
        path = self._realpath(path)
        try:
            mode = getattr(attr, "st_mode", None)
            fd = os.open(path, flags, mode if mode is not None else o666)
        except OSError as e:
            return SFTPServer.convert_errno(e.errno)
        if (flags & os.O_CREAT) and (attr is not None):
            attr._flags &= ~attr.FLAG_PERMISSIONS
            SFTPServer.set_file_attr(path, attr)
        if flags & os.O_WRONLY:
            fstr = "ab" if flags & os.O_APPEND else "wb"
        elif flags & os.O_RDWR:
            fstr = "a+b" if flags & os.O_APPEND else "r+b"
        else:
            fstr = "rb"
        try:
            # unbuffered: the handle shows the file as it is now, also after it was changed through
            # another handle or by path (a buffered reader would serve stale read-ahead)
            f = os.fdopen(fd, fstr, buffering=0)
        except OSError as e:
            return SFTPServer.convert_errno(e.errno)
        fobj = Handle(flags)
        fobj.faults = self.faults
        fobj.filename = path
        fobj.readfile = f
        fobj.writefile = f
        return fobj

    def remove(self, path):
        try:
            os.remove(self._realpath(path))
        except OSError as e:
            return SFTPServer.convert_errno(e.errno)
        return SFTP_OK

    def rename(self, oldpath, newpath):
        oldpath, newpath = self._realpath(oldpath), self._realpath(newpath)
        if os.path.exists(newpath):
            return SFTP_FAILURE
        try:
            os.rename(oldpath, newpath)
        except OSError as e:
            return SFTPServer.convert_errno(e.errno)
        return SFTP_OK

    def posix_rename(self, oldpath, newpath):
        try:
            os.rename(self._realpath(oldpath), self._realpath(newpath))
        except OSError as e:
            return SFTPServer.convert_errno(e.errno)
        return SFTP_OK

    def mkdir(self, path, attr):
        path = self._realpath(path)
        try:
            os.mkdir(path)
            if attr is not None:
                SFTPServer.set_file_attr(path, attr)
        except OSError as e:
            return SFTPServer.convert_errno(e.errno)
        return SFTP_OK

    def rmdir(self, path):
        try:
            os.rmdir(self._realpath(path))
        except OSError as e:
            return SFTPServer.convert_errno(e.errno)
        return SFTP_OK

    def chattr(self, path, attr):
        try:
            SFTPServer.set_file_attr(self._realpath(path), attr)
        except OSError as e:
            return SFTPServer.convert_errno(e.errno)
        return SFTP_OK

    def symlink(self, target_path, path):
        try:
            os.symlink(target_path, self._realpath(path))
        except OSError as e:
            return SFTPServer.convert_errno(e.errno)
        return SFTP_OK

    def readlink(self, path):
        try:
            return os.readlink(self._realpath(path))
        except OSError as e:
            return SFTPServer.convert_errno(e.errno)


def _raising(name, fn):
    def wrapper(self, *a, **kw):
        f = self.faults
        when = f.pick_raise(name) if f is not None else None
        if when == "before":
            raise OSError(errno.ENOSPC, "simulated failure in %s" % name)
        r = fn(self, *a, **kw)
        if when == "after":
            raise OSError(errno.ENOSPC, "simulated late failure in %s" % name)
        return r
    wrapper.__name__ = fn.__name__
    return wrapper


for _n in ("list_folder", "stat", "lstat", "open", "remove", "rename", "posix_rename", "mkdir", "rmdir", "chattr",
           "symlink", "readlink"):
    setattr(StubSFTP, _n, _raising("si." + _n, getattr(StubSFTP, _n)))
for _n in ("read", "write", "stat", "chattr", "close"):
    setattr(Handle, _n, _raising("handle." + _n, getattr(Handle, _n)))


class SftpSession:
    """Connected SFTP client + server over a simulated transport pair."""

    def __init__(self, sim, latency=0.0, faults=None, link=None, pair_kw=None):
        self.sim = sim
        self.root = tempfile.mkdtemp(prefix="verif-sftp-")
        self.local = tempfile.mkdtemp(prefix="verif-twin-")
        sim.cleanup.append(lambda: (shutil.rmtree(self.root, ignore_errors=True),
                                    shutil.rmtree(self.local, ignore_errors=True)))
        self.faults = faults or Faults(sim)
        root = self.root
        fl = self.faults

        class Stub(StubSFTP):
            ROOT = root
            faults = fl

        self.link = link or Link(sim, latency=(latency, latency))
        self.faults.link = self.link
        self.p = ssh.Pair(sim, link=self.link, **(pair_kw or {}))
        self.p.ts.set_subsystem_handler("sftp", SFTPServer, Stub)
        self.p.start(timeout=60)
        self.p.wait_server()
        self.p.auth_password()
        self.sftp = SFTPClient.from_transport(self.p.tc)
        self.schan = None

    def rpath(self, name):
        return os.path.join(self.root, name)

    def lpath(self, name):
        return os.path.join(self.local, name)

    def put_both(self, name, data):
        for p in (self.rpath(name), self.lpath(name)):
            with open(p, "wb") as f:
                f.write(data)

    def close(self):
        try:
            self.sftp.close()
        except Exception:
            pass
        self.p.close()
