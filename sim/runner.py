"""Fan-out, evidence, replay, shrinking (DESIGN 3.8, 7)."""
import faulthandler
import gc
import hashlib
import importlib
import json
import os
import shutil
import signal
import subprocess
import sys
import tempfile
import time
import traceback

from . import core
from .core import Sim, Violation, SimDeadlock, SimBudget, ReplayDiverged

VERIF = os.path.dirname(os.path.dirname(os.path.abspath(__file__)))
OUT = os.environ.get("VERIF_OUT") or VERIF   # evidence/ and replays/ go here
SEED_MULT = 1_000_003


def load_check(pid):
    return importlib.import_module("checks." + pid.lower())


def fp_str(fp):
    return hashlib.sha1("|".join(fp).encode()).hexdigest()[:10]


def run_one(mod, run_seed, replay=None, lenient=False, keep_trace=False, case=None):
    """Execute one simulated run.  Returns a result dict (never raises).
    case: an explicit workload case (JSON-able) that the scenario runs instead of generating one
    (used by case-level minimisation and by replay files that carry a minimised case)."""
    from . import shims
    shims.install()
    kw = dict(getattr(mod, "SIM_KW", {}))
    if hasattr(mod, "sim_kw"):
        kw.update(mod.sim_kw(run_seed))
    sim = Sim(run_seed, replay=replay, lenient=lenient, **kw)
    sim.record_history = True
    sim.case = case
    res = {"seed": run_seed, "status": "ok"}
    gc_was = gc.isenabled()
    gc.disable()
    t0 = time.perf_counter()
    info = None
    def dump_tasks(s):
        if os.environ.get("VERIF_DUMP_TASKS"):
            res["tasks"] = ["%r: %s" % (t, " < ".join(core.stack_of(t, 14))) for t in s.tasks if t.state != core.DONE]

    def body(s):
        try:
            try:
                return mod.scenario(s)
            except Violation:
                dump_tasks(s)
                raise
            except core.SimSpin:
                who, frames = s.spin_info or ("driver", [])
                raise SimBudget("cpu spin without yield point in task %s: %s" % (who, " < ".join(frames[:6])))
        except (SimDeadlock, SimBudget) as e:
            dump_tasks(s)
            # classify while the tasks are still parked (their stacks are gone after shutdown)
            if hasattr(mod, "on_hang"):
                try:
                    hv = mod.on_hang(s, e)
                except Exception:
                    hv = None
                    res["on_hang_error"] = traceback.format_exc()
                if isinstance(hv, core.Inconclusive):
                    s.probe("inconclusive:%s" % (hv,))
                    return {"nontrivial": False, "inconclusive": str(hv)}
                if hv is not None:
                    raise hv
            raise

    try:
        info = sim.run(body)
    except Violation as v:
        res.update(status="violation", fingerprint=list(v.fingerprint), message=v.message,
                   details=v.details)
    except ReplayDiverged as e:
        res.update(status="diverged", message=str(e))
    except (SimDeadlock, SimBudget) as e:
        res.update(status="error", message="unclassified hang: %s" % (e,))
    except core.SimAbort:
        res.update(status="error", message="SimAbort escaped")
    except Exception as e:
        # An exception that escapes the scenario from INSIDE paramiko code (innermost frame under the tree under
        # test) means the check's honest workload broke there: on the unchanged tree this never happens (it would
        # be exit 2 just the same), on a changed tree it is how a change typically shows when no oracle was reached.
        tb = e.__traceback__
        last = None
        while tb is not None:
            last = tb
            tb = tb.tb_next
        fn = last.tb_frame.f_code.co_filename if last is not None else ""
        if "/paramiko/" in fn and "/verif/" not in fn:
            where = "%s:%s" % (fn.rsplit("/", 1)[-1], last.tb_frame.f_code.co_name)
            res.update(status="violation",
                       fingerprint=[getattr(mod, "PROPERTY", "?"), "workload-broke-inside-paramiko", type(e).__name__, where],
                       message="the check's workload raised %r from %s (no oracle was reached)" % (e, where),
                       details={"traceback": traceback.format_exc()[-1500:]})
        else:
            res.update(status="error", message="harness exception: %r" % (e,),
                       traceback=traceback.format_exc())
    finally:
        if gc_was:
            gc.enable()
    res["wall"] = time.perf_counter() - t0
    res["digest"] = sim.digest()
    res["steps"] = sim.steps
    res["handoffs"] = sim.handoffs
    res["now"] = sim.now
    res["nchoices"] = len(sim.choices.log)
    res["involuntary"] = sim.involuntary
    res["faults"] = dict(sim.faults)
    res["probes"] = dict(sim.probes)
    res["leaked"] = getattr(sim, "leaked", 0)
    res["info"] = info
    res["choices"] = sim.choices.sparse()
    res["sched"] = hashlib.sha1(repr(res["choices"]).encode()).hexdigest()[:16]
    if keep_trace:
        res["trace_tail"] = [repr(e) for e in sim.history[-int(os.environ.get("VERIF_TRACE_TAIL") or 60):]]
        if getattr(sim, "line_log", None) is not None:
            res["line_log"] = sim.line_log[-int(os.environ.get("VERIF_TRACE_LINES") or 200):]
    sim.history = []
    return res


# ---------------------------------------------------------------- fan-out
def _child(mod_name, pid, seeds, outpath, deadline, wall_cap, no_opcodes=False):
    """Runs in a forked child: execute the seeds, write aggregate JSON."""
    if no_opcodes:
        os.environ["VERIF_NO_OPCODES"] = "1"
    faulthandler.enable()
    faulthandler.dump_traceback_later(wall_cap, exit=True)
    mod = load_check(pid)
    agg = new_agg()
    try:
        for i, s in enumerate(seeds):
            if time.time() > deadline:
                break
            r = run_one(mod, s)
            if r["status"] == "violation":
                r["prelude"] = list(seeds[:i])      # what this worker process ran before (see report())
                if no_opcodes:
                    r.setdefault("details", None)
                    r["env"] = {"VERIF_NO_OPCODES": "1"}
            fold(agg, r)
    except BaseException as e:  # pragma: no cover
        agg["errors"].append({"seed": -1, "message": "child crashed: %r" % (e,),
                              "traceback": traceback.format_exc()})
    with open(outpath, "w") as f:
        json.dump(agg, f)
    sys.stdout.flush()
    os._exit(0)


def new_agg():
    return {"runs": 0, "steps": 0, "handoffs": 0, "sim_time": 0.0, "wall": 0.0,
            "faults": {}, "probes": {}, "scheds": [], "nontrivial_scheds": [],
            "violations": [], "errors": [], "samples": [], "leaked": 0,
            "involuntary": 0, "digests": hashlib.sha256().hexdigest(), "info_counts": {}}


def fold(agg, r):
    agg["runs"] += 1
    agg["steps"] += r["steps"]
    agg["handoffs"] += r["handoffs"]
    agg["sim_time"] += r["now"]
    agg["wall"] += r["wall"]
    agg["leaked"] += r["leaked"]
    agg["involuntary"] += r["involuntary"]
    for k, v in r["faults"].items():
        agg["faults"][k] = agg["faults"].get(k, 0) + v
    for k, v in r["probes"].items():
        agg["probes"][k] = agg["probes"].get(k, 0) + v
    agg["scheds"].append(r["sched"])
    info = r.get("info") or {}
    nontrivial = bool(r["faults"]) or r["involuntary"] > 0 or bool(info.get("nontrivial"))
    if nontrivial:
        agg["nontrivial_scheds"].append(info.get("case_key") or r["sched"])
    for k in info.get("counts", ()):
        agg["info_counts"][k] = agg["info_counts"].get(k, 0) + 1
    agg["digests"] = hashlib.sha256((agg["digests"] + r["digest"]).encode()).hexdigest()
    if r["status"] == "violation":
        agg["violations"].append({k: r.get(k) for k in
                                  ("seed", "fingerprint", "message", "choices", "nchoices",
                                   "digest", "details", "prelude", "env")})
    elif r["status"] in ("error", "diverged"):
        agg["errors"].append({"seed": r["seed"], "message": r.get("message"),
                              "traceback": r.get("traceback")})
    if len(agg["samples"]) < 3 and info.get("sample") is not None:
        agg["samples"].append({"seed": r["seed"], "sample": info["sample"],
                               "faults": r["faults"], "steps": r["steps"]})


def merge(a, b):
    for k in ("runs", "steps", "handoffs", "sim_time", "wall", "leaked", "involuntary"):
        a[k] += b[k]
    for k in ("faults", "probes", "info_counts"):
        for kk, v in b[k].items():
            a[k][kk] = a[k].get(kk, 0) + v
    a["scheds"].extend(b["scheds"])
    a["nontrivial_scheds"].extend(b["nontrivial_scheds"])
    a["violations"].extend(b["violations"])
    a["errors"].extend(b["errors"])
    for s in b["samples"]:
        if len(a["samples"]) < 3:
            a["samples"].append(s)


def fan_out(pid, seeds, jobs, wall_budget, chunk=None, per_chunk_cap=None):
    """Run all seeds across forked children.  Returns merged aggregate."""
    tmp = tempfile.mkdtemp(prefix="verif-%s-" % pid)
    agg = new_agg()
    agg["harness_errors"] = []
    try:
        n = len(seeds)
        if chunk is None:
            chunk = max(1, min(400, n // (jobs * 4) or 1))
        chunks = [seeds[i:i + chunk] for i in range(0, n, chunk)]
        deadline = time.time() + wall_budget
        cap = per_chunk_cap or max(120, int(wall_budget) + 60)
        live = {}
        ci = 0
        retried = set()
        sys.stdout.flush()
        while ci < len(chunks) or live:
            while ci < len(chunks) and len(live) < jobs and time.time() < deadline:
                out = os.path.join(tmp, "c%d.json" % ci)
                p = os.fork()
                if p == 0:
                    try:
                        _child(None, pid, chunks[ci], out, deadline, cap, no_opcodes=ci in retried)
                    finally:
                        os._exit(3)
                live[p] = (ci, out, time.time())
                ci += 1
            if not live:
                if time.time() >= deadline:
                    agg["skipped_chunks"] = len(chunks) - ci
                    break
                continue
            try:
                p, st = os.waitpid(-1, os.WNOHANG)
            except ChildProcessError:
                p = 0
            if p == 0:
                now = time.time()
                for q, (c, out, t0) in list(live.items()):
                    if now - t0 > cap + 30:
                        os.kill(q, signal.SIGKILL)
                time.sleep(0.02)
                continue
            if p not in live:
                continue
            c, out, t0 = live.pop(p)
            if os.path.exists(out):
                with open(out) as f:
                    merge(agg, json.load(f))
                os.unlink(out)
            elif os.WIFSIGNALED(st) and os.WTERMSIG(st) == signal.SIGSEGV and c not in retried and time.time() < deadline:
                # the interpreter crashed in this worker (seen with bytecode-level tracing): run the same seeds once
                # more with that feature off rather than losing them; counted in the evidence
                retried.add(len(chunks))
                chunks.append(chunks[c])
                agg["probes"]["worker_crashed_rerun_without_opcode_tracing"] = \
                    agg["probes"].get("worker_crashed_rerun_without_opcode_tracing", 0) + 1
            else:
                agg["harness_errors"].append(
                    "chunk %d (seeds %s..) died with status %s and no result"
                    % (c, chunks[c][0], st))
    finally:
        shutil.rmtree(tmp, ignore_errors=True)
    return agg


# ---------------------------------------------------------------- replay / shrink
def replay_dict(sparse):
    return {int(i): int(v) for i, v in sparse}


def same_violation(r, fp):
    return r["status"] == "violation" and list(r["fingerprint"]) == list(fp)


def shrink(mod, seed, sparse, fp, budget_runs=200, budget_s=90.0):
    """Delta-debug the non-zero choices, keeping the same fingerprint."""
    t_end = time.time() + budget_s
    runs = [0]
    best = [list(map(list, sparse))]

    def attempt(cand):
        if runs[0] >= budget_runs or time.time() > t_end:
            return False
        runs[0] += 1
        r = run_one(mod, seed, replay=replay_dict(cand), lenient=True)
        if same_violation(r, fp):
            # canonicalise to what actually happened in this run
            best[0] = [list(x) for x in r["choices"]]
            return True
        return False

    # 1. truncate suffix by halves
    cur = best[0]
    n = len(cur)
    while n > 0 and runs[0] < budget_runs:
        cut = n // 2
        if cut == n:
            break
        if attempt(cur[:cut]):
            cur = best[0]
            n = len(cur)
        else:
            break
    # 2. ddmin over entries
    cur = best[0]
    gran = 2
    while len(cur) >= 1 and runs[0] < budget_runs and time.time() < t_end:
        size = max(1, len(cur) // gran)
        reduced = False
        i = 0
        while i < len(cur):
            cand = cur[:i] + cur[i + size:]
            if attempt(cand):
                cur = best[0]
                reduced = True
                gran = max(gran - 1, 2)
                break
            i += size
        if not reduced:
            if size == 1:
                break
            gran = min(gran * 2, len(cur))
    # 3. lower values
    cur = best[0]
    for j in range(len(cur)):
        if runs[0] >= budget_runs or time.time() > t_end:
            break
        if j < len(cur) and cur[j][1] > 1:
            cand = [list(x) for x in cur]
            cand[j][1] = 1
            if attempt(cand):
                cur = best[0]
    return best[0], runs[0]


def shrink_case(mod, seed, sparse, fp, case, budget_runs=120, budget_s=60.0):
    """Greedy minimisation of an explicit workload case (module supplies case_candidates and
    same_class).  Returns (case, result of the final run, runs used)."""
    t_end = time.time() + budget_s
    runs = 0
    rep = replay_dict(sparse)
    best = case
    best_r = run_one(mod, seed, replay=rep, lenient=True, case=best, keep_trace=True)
    runs += 1
    if not (best_r["status"] == "violation" and mod.same_class(best_r["fingerprint"], fp)):
        return None, None, runs
    progress = True
    while progress and runs < budget_runs and time.time() < t_end:
        progress = False
        for cand in mod.case_candidates(best):
            if runs >= budget_runs or time.time() > t_end:
                break
            r = run_one(mod, seed, replay=rep, lenient=True, case=cand, keep_trace=True)
            runs += 1
            if r["status"] == "violation" and mod.same_class(r["fingerprint"], fp):
                best, best_r = cand, r
                progress = True
                break
    return best, best_r, runs


def write_replay(pid, seed, sparse, fp, message, digest, trace_tail, details=None,
                 directory=None, name=None, case=None, prelude=None, env=None):
    d = directory or os.path.join(OUT, "replays")
    os.makedirs(d, exist_ok=True)
    path = os.path.join(d, name or "%s-%d-%s.json" % (pid, seed, fp_str(fp)))
    with open(path, "w") as f:
        d = {"property": pid, "seed": seed, "choices": sparse, "fingerprint": list(fp),
             "message": message, "digest": digest, "details": details,
             "trace_tail": trace_tail}
        if case is not None:
            d["case"] = case
        if prelude:
            d["prelude_seeds"] = list(prelude)
        if env:
            d["env"] = dict(env)
        json.dump(d, f, indent=1)
    return path


def replay_file(path, strict=True):
    with open(path) as f:
        rp = json.load(f)
    mod = load_check(rp["property"])
    for k, v in (rp.get("env") or {}).items():
        os.environ[k] = v
    for ps in rp.get("prelude_seeds") or ():
        # runs the same worker process executed before the failing one: the violation depends on
        # process-wide state they left behind in the code under test
        run_one(mod, ps)
    r = run_one(mod, rp["seed"], replay=replay_dict(rp["choices"]),
                lenient=(not strict) or rp.get("case") is not None, keep_trace=True, case=rp.get("case"))
    ok = same_violation(r, rp["fingerprint"]) and (r["digest"] == rp["digest"])
    return rp, r, ok


def replay_in_fresh_interpreter(path):
    env = dict(os.environ)
    env["PYTHONHASHSEED"] = "7"
    p = subprocess.run([os.path.join(VERIF, "check"), "replay", path], env=env,
                       capture_output=True, text=True, timeout=600)
    return p.returncode == 1 and "VIOLATION" in p.stdout, p.stdout + p.stderr


# ---------------------------------------------------------------- known findings
def load_known():
    p = os.path.join(VERIF, "known_findings.json")
    if not os.path.exists(p):
        return []
    with open(p) as f:
        return json.load(f)


def known_for(pid):
    return [k for k in load_known() if k["property"] == pid and k.get("status") == "open"]


# ---------------------------------------------------------------- top level
def run_check(pid, tier, seed, jobs):
    mod = load_check(pid)
    t0 = time.time()
    budget = mod.BUDGET[tier]
    nruns = budget["runs"]
    wall = budget.get("wall", 60 if tier == "quick" else 600)
    if hasattr(mod, "seeds_for"):
        seeds = mod.seeds_for(tier, seed)
    else:
        seeds = [seed * SEED_MULT + i for i in range(nruns)]
    agg = fan_out(pid, seeds, jobs, wall, chunk=budget.get("chunk"))
    known = known_for(pid)
    known_fps = {tuple(k["fingerprint"]): k for k in known}
    # group violations by fingerprint; candidates ordered by length of their choice log
    groups = {}
    for v in agg["violations"]:
        groups.setdefault(tuple(v["fingerprint"]), []).append(v)
    for g in groups.values():
        g.sort(key=lambda v: (len(v["choices"]), v["seed"]))
    new_violations = []
    known_hit = {}
    harness_errors = list(agg["harness_errors"])
    for e in agg["errors"][:5]:
        harness_errors.append("seed %s: %s" % (e["seed"], e["message"]))
        if e.get("traceback"):
            harness_errors.append(e["traceback"])
    shrink_deadline = time.time() + float(os.environ.get("VERIF_SHRINK_S", "150"))
    minimize = bool(getattr(mod, "MINIMIZE_CASES", False))
    seen_final = set()

    def case_len(v):
        return len(json.dumps((v.get("details") or {}).get("case")))

    def report_inner(fp, v):
        """Try to turn one recorded violation into a reproducing replay file.
        -> 'reported' | 'known' | 'duplicate' | 'skipped' | error text"""
        left = shrink_deadline - time.time()
        case0 = (v.get("details") or {}).get("case") if minimize else None
        if case0 is not None:
            # minimise the workload case itself; the fingerprint of the minimal case is the finding
            if left <= 5 or len(new_violations) >= 12:
                if new_violations:
                    return "skipped"        # already reporting; the remaining raw groups are not minimised
                left = 30.0
            case, r, nshrink = shrink_case(mod, v["seed"], v["choices"], fp, case0, budget_s=min(45.0, left))
            if case is not None:
                ffp = tuple(r["fingerprint"])
                if ffp in known_fps:
                    known_hit[ffp] = known_hit.get(ffp, 0) + 1
                    return "known"
                if ffp in seen_final:
                    return "duplicate"
                path = write_replay(pid, v["seed"], v["choices"], ffp, r["message"], r["digest"],
                                    r.get("trace_tail"), r.get("details"), case=case, env=v.get("env"))
                ok, out = replay_in_fresh_interpreter(path)
                if not ok:
                    return "replay %s did not reproduce in a fresh interpreter:\n%s" % (path, out[-2000:])
                seen_final.add(ffp)
                new_violations.append((ffp, {"message": r["message"]}, path, nshrink))
                return "reported"
            # the case alone does not reproduce (state carried over from the preceding cases of the run):
            # fall through and replay the whole run
        if left > 5 and len(new_violations) < 12 and case0 is None:
            sparse, nshrink = shrink(mod, v["seed"], v["choices"], fp, budget_s=min(60.0, left))
        else:
            sparse, nshrink = v["choices"], 0      # overall minimisation budget used up: report unshrunk
        r = run_one(mod, v["seed"], replay=replay_dict(sparse), lenient=True, keep_trace=True)
        if not same_violation(r, fp):
            # fall back to the unshrunk log
            sparse = v["choices"]
            r = run_one(mod, v["seed"], replay=replay_dict(sparse), lenient=True, keep_trace=True)
        if fp in seen_final:
            return "duplicate"
        if same_violation(r, fp):
            path = write_replay(pid, v["seed"], r["choices"], fp, r["message"], r["digest"],
                                r.get("trace_tail"), r.get("details"), env=v.get("env"))
            ok, out = replay_in_fresh_interpreter(path)
            if ok:
                seen_final.add(fp)
                new_violations.append((fp, v, path, nshrink))
                return "reported"
            err = "replay %s did not reproduce in a fresh interpreter:\n%s" % (path, out[-2000:])
        else:
            err = "violation %s (seed %d) did not replay in-process: %s" % (fp, v["seed"], v["message"])
        prelude = v.get("prelude") or []
        if not prelude or time.time() > shrink_deadline + 120:
            return err
        # The run alone does not show it: replay it after the runs its worker process had executed before it
        # (process-wide state in the code under test), then drop as much of that prelude as possible.
        path = write_replay(pid, v["seed"], v["choices"], fp, v["message"], v["digest"], None, v.get("details"),
                            prelude=prelude, env=v.get("env"))
        ok, out = replay_in_fresh_interpreter(path)
        if not ok:
            return err + "\n(also not with the %d preceding runs of its worker)" % len(prelude)
        keep = prelude
        while len(keep) > 1 and time.time() < shrink_deadline + 120:
            half = keep[len(keep) // 2:]
            write_replay(pid, v["seed"], v["choices"], fp, v["message"], v["digest"], None, v.get("details"),
                         prelude=half, env=v.get("env"))
            ok, out = replay_in_fresh_interpreter(path)
            if not ok:
                break
            keep = half
        write_replay(pid, v["seed"], v["choices"], fp, v["message"], v["digest"], None, v.get("details"),
                     prelude=keep, env=v.get("env"))
        seen_final.add(fp)
        new_violations.append((fp, v, path, 0))
        return "reported"

    def report(fp, v):
        env = v.get("env") or {}
        saved = {k: os.environ.get(k) for k in env}
        os.environ.update(env)
        try:
            return report_inner(fp, v)
        finally:
            for k, old in saved.items():
                if old is None:
                    os.environ.pop(k, None)
                else:
                    os.environ[k] = old

    order = sorted(groups.items(), key=lambda kv: (case_len(kv[1][0]), kv[0]) if minimize else kv[0])
    unreproduced = []
    for fp, cands in order:
        if fp in known_fps:
            known_hit[fp] = len(cands)
            continue
        errs = []
        for v in cands[:12]:
            res = report(fp, v)
            if res in ("reported", "known", "duplicate", "skipped"):
                break
            errs.append(res)
        else:
            unreproduced.append((fp, errs))
    if unreproduced and not new_violations:
        # nothing reproducible at all: the harness (or state leaking between runs) is at fault
        for fp, errs in unreproduced[:5]:
            harness_errors.extend(errs[:2])
    elif unreproduced:
        print("note: %d violation group(s) observed in the batch did not reproduce in isolation (state carried "
              "between runs); reproducing ones are reported below" % len(unreproduced))
    wall_s = time.time() - t0
    write_evidence(mod, pid, tier, seed, agg, wall_s, known_hit, new_violations, harness_errors)
    for fp, k in known_fps.items():
        print("KNOWN-FINDING: property=%s %s%s" % (
            pid, k["what_fails"],
            "" if fp in known_hit else " (not re-encountered in this run)"))
    for fp, v, path, nshrink in new_violations:
        print("VIOLATION property=%s replay=%s" % (pid, path))
        print("  fingerprint: %s" % " | ".join(fp))
        print("  message: %s" % v["message"])
    print("%s %s: runs=%d wall=%.1fs runs/h=%d sim_s=%.1f faults=%s violations=%d known_hit=%d"
          % (pid, tier, agg["runs"], wall_s, int(agg["runs"] / max(wall_s, 1e-9) * 3600),
             agg["sim_time"], sum(agg["faults"].values()), len(new_violations), len(known_hit)))
    if harness_errors:
        # runs the harness could not classify (crashed worker, spent step budget, non-reproducing replay).  With
        # reproduced violations in hand the verdict is still "violation" (exit 1); alone they make the run void (exit 2).
        print("HARNESS-ERROR%s:" % (" (besides the violations above)" if new_violations else " (exit 2)"))
        for h in harness_errors[:10]:
            print("  " + str(h).replace("\n", "\n  "))
        return 1 if new_violations else 2
    if agg["runs"] == 0:
        print("HARNESS-ERROR: no runs executed")
        return 2
    return 1 if new_violations else 0


def write_evidence(mod, pid, tier, seed, agg, wall_s, known_hit, new_violations, harness_errors):
    distinct = len(set(agg["nontrivial_scheds"]))
    cov = {
        "evaluations": agg["runs"],
        "distinct_nontrivial": distinct,
        "rule": getattr(mod, "RULE", "") + " A run counts as non-trivial if at least one fault fired or at "
        "least one involuntary task switch happened (or the check's own rule says so); distinct = distinct "
        "sha1 of the full decision log (or the check's case key).",
        "samples": agg["samples"] or [{"note": "no sample recorded"}],
        "runs_per_hour": int(agg["runs"] / max(wall_s, 1e-9) * 3600),
        "simulated_seconds": round(agg["sim_time"], 3),
        "steps": agg["steps"],
        "handoffs": agg["handoffs"],
        "involuntary_switches": agg["involuntary"],
        "faults_fired": agg["faults"],
        "probes": agg["probes"],
        "case_counts": agg["info_counts"],
        "distinct_schedules": len(set(agg["scheds"])),
        "components": getattr(mod, "COMPONENTS", {}),
        "known_findings_hit": {" | ".join(k): v for k, v in known_hit.items()},
        "leaked_threads": agg["leaked"],
        "exhaustive": bool(getattr(mod, "EXHAUSTIVE", False)),
        "harness_errors": len(harness_errors),
    }
    ev = {
        "property_id": pid,
        "tier": tier,
        "seed": seed,
        "level": mod.LEVEL,
        "coverage": cov,
        "assumptions": getattr(mod, "ASSUMPTIONS", []),
        "wall_s": round(wall_s, 2),
        "violations": len(new_violations),
    }
    d = os.path.join(OUT, "evidence")
    os.makedirs(d, exist_ok=True)
    with open(os.path.join(d, pid + ".json"), "w") as f:
        json.dump(ev, f, indent=1, default=repr)


def main(argv):
    if len(argv) >= 2 and argv[0] == "replay":
        rp, r, ok = replay_file(argv[1])
        if ok:
            print("VIOLATION property=%s replay=%s" % (rp["property"], argv[1]))
            print("  fingerprint: %s" % " | ".join(rp["fingerprint"]))
            print("  message: %s" % r["message"])
            for l in r.get("trace_tail", [])[-int(os.environ.get("VERIF_TRACE_TAIL") or 25):]:
                print("    " + l)
            for l in r.get("line_log", []):
                print("    L " + l)
            for l in r.get("tasks", []):
                print("    T " + l)
            return 1
        print("replay did not reproduce: status=%s fp=%s digest_match=%s msg=%s"
              % (r["status"], r.get("fingerprint"), r["digest"] == rp["digest"], r.get("message")))
        if r.get("traceback"):
            print(r["traceback"])
        return 0 if r["status"] == "ok" else 2
    if len(argv) >= 2 and argv[0] == "one":
        mod = load_check(argv[1])
        s = int(argv[2])
        r = run_one(mod, s, keep_trace=True)
        r.pop("choices")
        print(json.dumps(r, indent=1, default=repr))
        return 0
    pid = argv[0]
    tier = os.environ.get("VERIF_TIER", "quick")
    if "--tier" in argv:
        tier = argv[argv.index("--tier") + 1]
    seed = int(os.environ.get("VERIF_SEED", "0") or 0)
    jobs = int(os.environ.get("VERIF_JOBS", "16") or 16)
    if pid.startswith("selftest"):
        from . import selftest
        return selftest.main(pid, argv[1:], seed, jobs)
    return run_check(pid, tier, seed, jobs)
