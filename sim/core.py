"""Deterministic simulator core: one baton, real threads, seeded choices.

See DESIGN.md section 3.  Nothing in here knows about paramiko.
"""
import _thread
import hashlib
import heapq
import random
import sys
import threading as _rt  # the real module

RUNNABLE, BLOCKED, DONE = 0, 1, 2
EPS = 1e-6
EPOCH = 1_700_000_000.0

_real_thread_start = _rt.Thread.start
_real_thread_join = _rt.Thread.join
_real_thread_is_alive = _rt.Thread.is_alive
_get_ident = _thread.get_ident

CURRENT = None  # the installed Sim (one per process at a time)


def current():
    return CURRENT


class SimAbort(BaseException):
    """Raised inside parked tasks at teardown so their threads unwind."""


class SimDeadlock(Exception):
    pass


class SimBudget(Exception):
    pass


class ReplayDiverged(Exception):
    pass


class Inconclusive(Exception):
    """Returned by a check's on_hang(): the run was stopped by a budget or the spin watchdog in a place the check
    knows to be slow but finite (not a hang, not a violation, not a harness fault).  The run is counted under the
    probe 'inconclusive:<reason>' and decides nothing."""


class SimSpin(BaseException):
    """Raised asynchronously (by the wall-clock watchdog) inside a task that keeps the baton
    without ever reaching a yield point: a pure CPU loop in the code under test."""


class Violation(Exception):
    """A property violation found by an oracle.

    fingerprint: tuple/list of strings, stable across runs for the same
    root cause (DESIGN section 6).
    """

    def __init__(self, fingerprint, message, details=None):
        Exception.__init__(self, message)
        self.fingerprint = tuple(str(x) for x in fingerprint)
        self.message = message
        self.details = details


class Task:
    __slots__ = (
        "idx", "name", "state", "sem", "waitq", "notified", "token",
        "ident", "joiners", "thread", "exc", "daemon", "steps", "wake_at",
        "kind", "started_run",
    )

    def __init__(self, idx, name):
        self.idx = idx
        self.name = name
        self.state = RUNNABLE
        self.sem = _thread.allocate_lock()
        self.sem.acquire()
        self.waitq = None
        self.notified = False
        self.token = 0
        self.ident = None
        self.joiners = []
        self.thread = None
        self.exc = None
        self.steps = 0
        self.wake_at = None
        self.kind = "task"
        self.started_run = False

    def __repr__(self):
        return "<Task %d %s %s>" % (
            self.idx, self.name, ("RUN", "BLK", "DONE")[self.state])


class Choices:
    """The recorded stream of decisions.  0 is always the benign choice."""

    def __init__(self, seed, replay=None, lenient=False):
        self.rng = random.Random(seed)
        self.log = []
        self.replay = replay  # dict index -> value, or None
        self.replay_len = None
        self.lenient = lenient
        self.diverged = False

    def choose(self, n, p0=None):
        """Pick an int in [0, n).  If p0 is given, 0 is picked with prob p0."""
        i = len(self.log)
        if self.replay is not None:
            v = self.replay.get(i, 0)
            if v >= n:
                if not self.lenient:
                    self.diverged = True
                    raise ReplayDiverged(
                        "choice %d: recorded %d but only %d options" % (i, v, n))
                v = v % n if n > 0 else 0
        else:
            if n <= 1:
                v = 0
            elif p0 is not None:
                v = 0 if self.rng.random() < p0 else 1 + self.rng.randrange(n - 1)
            else:
                v = self.rng.randrange(n)
        self.log.append(v)
        return v

    def sparse(self):
        return [[i, v] for i, v in enumerate(self.log) if v]


class Sim:
    def __init__(self, seed=0, replay=None, lenient=False, max_steps=2_000_000,
                 max_time=3600.0, p_switch=None, trace_files=None,
                 p_preempt=0.0, max_preempt=0, trace_opcodes=False, p_preempt_store=0.0, trace_funcs=None):
        self.seed = seed
        self.choices = Choices(seed * 3 + 0, replay, lenient)
        self.entropy = random.Random(seed * 3 + 1)
        self.payload = random.Random(seed * 3 + 2)
        self.now = 0.0
        self.steps = 0
        self.handoffs = 0
        self.seq = 0
        self.heap = []
        self.tasks = []
        self.current = None
        self.driver = None
        self.history = []
        self.record_history = True
        self.probes = {}
        self.faults = {}
        self.max_steps = max_steps
        self.max_time = max_time
        self.aborting = False
        self.failure = None      # SimDeadlock/SimBudget instance pending for driver
        self.p_switch = p_switch
        self.p_stall = 0.0
        self.p_preempt_stall = 0.0      # share of statement-level pre-emptions that are a stall instead of a switch
        self.stall_choices = (0.001, 0.1, 1.0)
        self.trace_files = trace_files  # set of filenames or None
        self.p_preempt = p_preempt
        self.max_preempt = max_preempt
        self.preemptions = 0
        # bytecode-level pre-emption (inside one source statement, e.g. between the load and the store of
        # `self.x += n`): in traced files a switch may happen right before an attribute / item / global STORE
        import os as _os
        if _os.environ.get("VERIF_NO_OPCODES"):
            trace_opcodes = False       # fallback mode of the runner after a worker died (see runner.fan_out)
        self.trace_opcodes = trace_opcodes
        self.trace_funcs = trace_funcs      # None: every function of the traced files; else a set of function names
        self.p_preempt_store = p_preempt_store
        self.store_points = 0
        self.involuntary = 0
        self.last_fault_time = 0.0
        self.task_exceptions = []
        self.cleanup = []
        self._digest = hashlib.sha256()
        self.nevents = 0
        self.watch_lines = None     # {(filename, lineno): tag} -> line_hook(tag, frame) when traced
        self.line_hook = None
        self.spin_limit = 15.0      # wall seconds without any yield point => CPU spin (0 disables)
        self.spin_info = None

    # ------------------------------------------------------------ choices
    def choose(self, n, tag=None, p0=None):
        if n <= 1:
            return 0
        return self.choices.choose(n, p0)

    def choose_bool(self, p, tag=None):
        if p <= 0.0:
            return False
        if p >= 1.0:
            return True
        return self.choices.choose(2, 1.0 - p) == 1

    def pick(self, seq, tag=None):
        return seq[self.choose(len(seq), tag)]

    def probe(self, name, n=1):
        self.probes[name] = self.probes.get(name, 0) + n

    def fault(self, name, n=1):
        self.faults[name] = self.faults.get(name, 0) + n
        self.last_fault_time = self.now

    # ------------------------------------------------------------ history
    def record(self, kind, *fields):
        self.seq += 1
        cur = self.current
        ev = (self.seq, round(self.now, 6), cur.idx if cur else -1, kind, fields)
        self.nevents += 1
        self._digest.update(repr(ev).encode("utf-8", "backslashreplace"))
        if self.record_history:
            self.history.append(ev)
        return self.seq

    def digest(self):
        d = self._digest.copy()
        d.update(repr((self.steps, round(self.now, 6), len(self.choices.log))).encode())
        return d.hexdigest()

    # ------------------------------------------------------------ identity
    def holder(self):
        """True if the calling OS thread is the baton holder."""
        c = self.current
        return c is not None and c.ident == _get_ident()

    def inert(self):
        return not self.holder()

    # ------------------------------------------------------------ events
    def after(self, delay, fn):
        self.seq += 1
        heapq.heappush(self.heap, (self.now + delay, self.seq, fn))

    def at(self, when, fn):
        self.seq += 1
        heapq.heappush(self.heap, (max(when, self.now), self.seq, fn))

    def _fire_due(self):
        heap = self.heap
        while heap and heap[0][0] <= self.now:
            _, _, fn = heapq.heappop(heap)
            fn()

    # ------------------------------------------------------------ scheduling
    def step(self):
        """A yield point for the baton holder."""
        if self.aborting:
            raise SimAbort()
        me = self.current
        if me is None or me.ident != _get_ident():
            return
        self.steps += 1
        me.steps += 1
        self.now += EPS
        if self.heap and self.heap[0][0] <= self.now:
            self._fire_due()
        if self.steps > self.max_steps or self.now > self.max_time:
            self._fail(SimBudget("budget exceeded: steps=%d now=%.3f" % (self.steps, self.now)))
            return
        if self.p_stall and self.choose_bool(self.p_stall):
            d = self.stall_choices[self.choose(len(self.stall_choices))]
            self.fault("stall")
            self.block([], d)
            return
        if self.p_switch and self.choose_bool(self.p_switch):
            others = [t for t in self.tasks if t.state == RUNNABLE and t is not me]
            if others:
                self.involuntary += 1
                self._switch(others[self.choose(len(others))])

    def preempt_point(self):
        """Called by the line tracer."""
        if self.aborting:
            return
        me = self.current
        if me is None or me.ident != _get_ident():
            return
        self.steps += 1
        me.steps += 1
        if self.steps > self.max_steps:
            self._fail(SimBudget("budget exceeded (traced): steps=%d" % self.steps))
            return
        if self.preemptions < self.max_preempt and self.choose_bool(self.p_preempt):
            if self.p_preempt_stall and self.choose_bool(self.p_preempt_stall):
                # not merely "someone else runs next": this thread is off the CPU for a while (virtual time), so
                # that others get through several of their own synchronisation points meanwhile
                self.preemptions += 1
                self.involuntary += 1
                self.fault("stall_between_statements")
                self.block([], self.stall_choices[self.choose(len(self.stall_choices))])
                return
            others = [t for t in self.tasks if t.state == RUNNABLE and t is not me]
            if others:
                self.preemptions += 1
                self.involuntary += 1
                self._switch(others[self.choose(len(others))])

    def preempt_point_store(self):
        """Called by the opcode tracer right before a STORE_ATTR / STORE_SUBSCR / STORE_GLOBAL."""
        if self.aborting:
            return
        me = self.current
        if me is None or me.ident != _get_ident():
            return
        self.store_points += 1
        if self.preemptions < self.max_preempt and self.choose_bool(self.p_preempt_store):
            others = [t for t in self.tasks if t.state == RUNNABLE and t is not me]
            if others:
                self.preemptions += 1
                self.involuntary += 1
                self.probes["preempted_before_store"] = self.probes.get("preempted_before_store", 0) + 1
                self._switch(others[self.choose(len(others))])

    def _fail(self, exc):
        """Hand control to the driver with a pending failure."""
        if self.failure is None:
            self.failure = exc
        d = self.driver
        me = self.current
        if me is d:
            f = self.failure
            raise f
        if d.state == DONE:
            raise SimAbort()
        if d.state == BLOCKED:
            self._unblock(d, False)
        # park me forever (until abort)
        me.state = BLOCKED
        me.waitq = None
        me.token += 1
        self._switch(d)

    def _switch(self, t):
        me = self.current
        if t is me:
            return
        self.handoffs += 1
        self.current = t
        t.sem.release()
        me.sem.acquire()
        if self.aborting:
            raise SimAbort()
        if me is self.driver and self.failure is not None:
            raise self.failure

    def _next(self):
        """Choose the next task to run; advance the clock if all are blocked."""
        while True:
            runnable = [t for t in self.tasks if t.state == RUNNABLE]
            if runnable:
                if len(runnable) == 1:
                    return runnable[0]
                return runnable[self.choose(len(runnable))]
            heap = self.heap
            if not heap:
                return None
            t, _, fn = heapq.heappop(heap)
            if t > self.now:
                self.now = t
                if self.now > self.max_time:
                    self.failure = self.failure or SimBudget(
                        "virtual time cap exceeded: now=%.3f" % self.now)
                    d = self.driver
                    if d.state == BLOCKED:
                        self._unblock(d, False)
            fn()

    def block(self, waitq, timeout=None):
        """Block the calling task on waitq; True if notified, False on timeout."""
        if self.aborting:
            raise SimAbort()
        me = self.current
        if me is None or me.ident != _get_ident():
            return False
        if timeout is not None and timeout <= 0:
            # still a yield point
            self.step()
            return False
        me.state = BLOCKED
        me.waitq = waitq
        me.notified = False
        me.token += 1
        waitq.append(me)
        if timeout is not None:
            tok = me.token
            self.seq += 1
            heapq.heappush(self.heap, (self.now + timeout, self.seq,
                                       lambda: self._timeout(me, tok)))
        self._dispatch()
        return me.notified

    def _timeout(self, task, tok):
        if task.state == BLOCKED and task.token == tok:
            self._unblock(task, False)

    def _unblock(self, task, notified):
        q = task.waitq
        if q is not None:
            try:
                q.remove(task)
            except ValueError:
                pass
        task.waitq = None
        task.notified = notified
        task.state = RUNNABLE
        task.token += 1

    def _dispatch(self):
        """Current task cannot continue (blocked or done): run someone else."""
        me = self.current
        nxt = self._next()
        if nxt is None:
            # deadlock: nobody runnable, nothing pending
            self.failure = self.failure or SimDeadlock(self.describe_blocked())
            d = self.driver
            if d.state == DONE:
                # nothing to report to; leave everyone parked
                if me.state != DONE:
                    me.sem.acquire()
                    raise SimAbort()
                return
            if d.state == BLOCKED:
                self._unblock(d, False)
            nxt = d
        if nxt is me:
            if me is self.driver and self.failure is not None:
                raise self.failure
            return
        self.handoffs += 1
        self.current = nxt
        nxt.sem.release()
        if me.state == DONE:
            return
        me.sem.acquire()
        if self.aborting:
            raise SimAbort()
        if me is self.driver and self.failure is not None:
            raise self.failure

    def wake(self, waitq, n=1):
        """Make up to n waiters runnable (FIFO)."""
        k = 0
        while waitq and k < n:
            t = waitq[0]
            self._unblock(t, True)
            k += 1
        return k

    def wake_all(self, waitq):
        return self.wake(waitq, 1 << 30)

    def sleep(self, d):
        self.block([], d)

    def describe_blocked(self):
        out = []
        for t in self.tasks:
            if t.state == BLOCKED:
                out.append("%d:%s@%s" % (t.idx, t.name, where_parked(t)))
        return "deadlock: " + "; ".join(out)

    # ------------------------------------------------------------ tasks
    def _new_task(self, name, kind="task"):
        t = Task(len(self.tasks), name)
        t.kind = kind
        self.tasks.append(t)
        return t

    def spawn(self, fn, name, *args, **kw):
        """Start an application task (a real daemon thread under the baton)."""
        th = _rt.Thread(target=fn, args=args, kwargs=kw, daemon=True)
        th._sim_name = name
        th.start()
        return th._sim_task

    def join_task(self, task, timeout=None):
        if task.state == DONE:
            return True
        self.block(task.joiners, timeout)
        return task.state == DONE

    def run(self, main_fn):
        """Run main_fn as the driver task on the calling thread."""
        global CURRENT
        assert CURRENT is None, "a simulation is already installed"
        d = self._new_task("driver", "driver")
        d.ident = _get_ident()
        d.thread = _rt.current_thread()
        d.started_run = True
        self.driver = d
        self.current = d
        CURRENT = self
        tracer = self._make_tracer() if self.trace_files else None
        opcode_codes = _opcode_enable(self) if (self.trace_files and self.trace_opcodes) else None
        self._wd_stop = False
        self.spin_info = None
        wd = None
        if self.spin_limit:
            wd = _rt.Thread(target=self._watchdog, daemon=True)
            _real_thread_start(wd)
        try:
            if tracer:
                sys.settrace(tracer)
            return main_fn(self)
        finally:
            self._wd_stop = True
            if tracer:
                sys.settrace(None)
            self.shutdown()
            if opcode_codes:
                _opcode_disable(opcode_codes)
            CURRENT = None

    def _watchdog(self):
        """Real (non-simulated) thread: if no yield point is reached for spin_limit wall seconds,
        the baton holder is looping without ever yielding; interrupt it."""
        import ctypes
        import time as _t
        last = -1
        since = _t.monotonic()
        fired = False
        while not self._wd_stop and not self.aborting:
            _t.sleep(0.25)
            if self.steps != last:
                last = self.steps
                since = _t.monotonic()
                continue
            if not fired and _t.monotonic() - since > self.spin_limit:
                cur = self.current
                if cur is not None and cur.ident is not None:
                    fired = True
                    try:
                        self.spin_info = (cur.name, stack_of(cur, 40))
                    except Exception:
                        self.spin_info = (cur.name, [])
                    ctypes.pythonapi.PyThreadState_SetAsyncExc(ctypes.c_ulong(cur.ident), ctypes.py_object(SimSpin))

    def shutdown(self):
        self.aborting = True
        me = self.current
        # release all parked threads so they unwind with SimAbort
        live = []
        for t in self.tasks:
            if t.ident == _get_ident():
                continue
            if t.state != DONE or t.thread is not None:
                live.append(t)
            try:
                t.sem.release()
            except RuntimeError:
                pass
        self.leaked = 0
        for t in live:
            th = t.thread
            if th is not None and th is not _rt.current_thread():
                _real_thread_join(th, 0.5)
                if _real_thread_is_alive(th):
                    self.leaked += 1
        for fn in self.cleanup:
            try:
                fn()
            except Exception:
                pass

    # ------------------------------------------------------------ tracing
    def _make_tracer(self):
        files = self.trace_files
        sim = self

        import os
        if os.environ.get("VERIF_TRACE_LINES"):
            self.line_log = []

            def local(frame, event, arg):
                if event == "line":
                    c = sim.current
                    self.line_log.append("%s %s:%d %s" % (
                        c.name if c else "?", frame.f_code.co_filename.rsplit("/", 1)[1],
                        frame.f_lineno, frame.f_code.co_name))
                    sim.preempt_point()
                return local
        elif self.watch_lines:
            watch = self.watch_lines

            def local(frame, event, arg):
                if event == "line":
                    tag = watch.get((frame.f_code.co_filename, frame.f_lineno))
                    if tag is not None:
                        sim.line_hook(tag, frame)
                    sim.preempt_point()
                return local
        else:
            def local(frame, event, arg):
                if event == "line":
                    sim.preempt_point()
                return local

        funcs = self.trace_funcs

        def glob(frame, event, arg):
            if frame.f_code.co_filename in files and (funcs is None or frame.f_code.co_name in funcs):
                return local
            return None

        self._tracer = glob
        return glob


# ---------------------------------------------------------------- bytecode-level pre-emption (PEP 669)
_MON_TOOL = 4
_mon_ready = [False]


def _codes_of(files, funcs):
    """Every code object (functions, methods, nested functions) defined in the given source files."""
    import types
    seen, out = set(), []

    def add(code):
        if id(code) in seen or code.co_filename not in files:
            return
        seen.add(id(code))
        if funcs is None or code.co_name in funcs:
            out.append(code)
        for c in code.co_consts:
            if isinstance(c, types.CodeType):
                add(c)

    def walk(obj, depth=0):
        f = getattr(obj, "__func__", obj)
        f = getattr(f, "fget", f) if isinstance(f, property) else f
        code = getattr(f, "__code__", None)
        if isinstance(code, types.CodeType):
            add(code)
        if isinstance(obj, type) and depth < 3:
            for v in list(vars(obj).values()):
                walk(v, depth + 1)
                if isinstance(v, (staticmethod, classmethod)):
                    walk(v.__func__, depth + 1)
                if isinstance(v, property):
                    for g in (v.fget, v.fset, v.fdel):
                        if g is not None:
                            walk(g, depth + 1)
    for m in list(sys.modules.values()):
        if getattr(m, "__file__", None) in files:
            for v in list(vars(m).values()):
                if getattr(v, "__module__", None) == m.__name__ or isinstance(v, types.FunctionType):
                    walk(v)
    out.sort(key=lambda c: (c.co_filename, c.co_firstlineno, c.co_name))
    return out


def _opcode_enable(sim):
    """Instrument the traced functions for INSTRUCTION events up front (so that the events do not depend on what an
    earlier run in this process happened to execute) and route stores to sim.preempt_point_store()."""
    import dis
    mon = sys.monitoring
    stores = frozenset(dis.opmap[n] for n in ("STORE_ATTR", "STORE_SUBSCR", "STORE_GLOBAL", "DELETE_SUBSCR", "DELETE_ATTR")
                       if n in dis.opmap)
    if not _mon_ready[0]:
        mon.use_tool_id(_MON_TOOL, "verif-sim")
        _mon_ready[0] = True

    def on_instruction(code, offset):
        s = CURRENT
        if s is not None and code.co_code[offset] in stores:
            s.preempt_point_store()

    mon.register_callback(_MON_TOOL, mon.events.INSTRUCTION, on_instruction)
    codes = _codes_of(sim.trace_files, sim.trace_funcs)
    for c in codes:
        mon.set_local_events(_MON_TOOL, c, mon.events.INSTRUCTION)
    return codes


def _opcode_disable(codes):
    mon = sys.monitoring
    for c in codes:
        try:
            mon.set_local_events(_MON_TOOL, c, 0)
        except Exception:
            pass
    mon.register_callback(_MON_TOOL, mon.events.INSTRUCTION, None)


def where_parked(task):
    """Innermost paramiko frame of a parked task (for hang fingerprints)."""
    th = task.thread
    if th is None or th.ident is None:
        return "?"
    fr = sys._current_frames().get(th.ident)
    best = "?"
    while fr is not None:
        fn = fr.f_code.co_filename
        if "/paramiko/" in fn:
            best = "%s:%s" % (fn.rsplit("/", 1)[-1], fr.f_code.co_name)
            break
        fr = fr.f_back
    return best


def stack_of(task, limit=12):
    th = task.thread
    if th is None or th.ident is None:
        return []
    fr = sys._current_frames().get(th.ident)
    out = []
    while fr is not None and len(out) < limit:
        fn = fr.f_code.co_filename
        if "/sim/" not in fn:
            out.append("%s:%d:%s" % (fn.rsplit("/", 1)[-1], fr.f_lineno, fr.f_code.co_name))
        fr = fr.f_back
    return out


# ---------------------------------------------------------------- Thread patch
def _patched_start(self):
    sim = CURRENT
    if sim is None or sim.aborting or not sim.holder():
        return _real_thread_start(self)
    name = getattr(self, "_sim_name", None) or type(self).__name__
    task = sim._new_task(name)
    task.thread = self
    self._sim_task = task
    self._sim = sim
    orig_run = self.run
    tracer = sim._tracer if sim.trace_files else None

    def run():
        task.ident = _get_ident()
        task.sem.acquire()  # wait for the baton
        if sim.aborting:
            task.state = DONE
            return
        task.started_run = True
        if tracer:
            sys.settrace(tracer)
        try:
            orig_run()
        except SimAbort:
            pass
        except SimSpin:
            if not sim.aborting and sim.failure is None:
                who, frames = sim.spin_info or (task.name, [])
                sim.failure = SimBudget("cpu spin without yield point in task %s: %s" % (who, " < ".join(frames[:6])))
                d = sim.driver
                if d is not None and d.state == BLOCKED:
                    sim._unblock(d, False)
        except BaseException as e:  # recorded; scenario decides
            if not sim.aborting:
                task.exc = e
                sim.task_exceptions.append((task.idx, task.name, e))
                try:
                    sim.record("task_exception", task.name, type(e).__name__)
                except Exception:
                    pass
        finally:
            if tracer:
                sys.settrace(None)
            try:
                del self.run
            except AttributeError:
                pass
            if not sim.aborting and sim.current is task:
                task.state = DONE
                sim.wake_all(task.joiners)
                try:
                    sim._dispatch()
                except (SimAbort, SimDeadlock, SimBudget):
                    pass
            else:
                task.state = DONE

    self.run = run
    _real_thread_start(self)
    sim.step()


def _patched_join(self, timeout=None):
    task = getattr(self, "_sim_task", None)
    sim = CURRENT
    if task is None or sim is None or self._sim is not sim or not sim.holder():
        if task is not None and (sim is None or sim.aborting):
            return _real_thread_join(self, 0.01 if timeout is None else min(timeout, 0.01))
        return _real_thread_join(self, timeout)
    sim.step()
    if task.state != DONE:
        sim.block(task.joiners, timeout)


def _patched_is_alive(self):
    task = getattr(self, "_sim_task", None)
    if task is None:
        return _real_thread_is_alive(self)
    sim = CURRENT
    if sim is not None and sim is self._sim and sim.holder():
        sim.step()
    return task.state != DONE


def patch_threads():
    _rt.Thread.start = _patched_start
    _rt.Thread.join = _patched_join
    _rt.Thread.is_alive = _patched_is_alive


def unpatch_threads():
    _rt.Thread.start = _real_thread_start
    _rt.Thread.join = _real_thread_join
    _rt.Thread.is_alive = _real_thread_is_alive
