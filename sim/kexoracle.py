"""Independent recomputation of the exchange hash H from the fields seen on
the wire, and independent verification of the server's signature over it
(cryptography / PyNaCl directly; no paramiko key classes)."""
import hashlib
import struct

from cryptography.exceptions import InvalidSignature
from cryptography.hazmat.primitives import hashes
from cryptography.hazmat.primitives.asymmetric import ec, padding, rsa, utils
from cryptography.hazmat.primitives.asymmetric.ed25519 import Ed25519PublicKey

from .wiretap import Reader, mpint, KEX_HASH, TapError


def sstr(b):
    return struct.pack(">I", len(b)) + b


class Exchange:
    """Wire fields of one key exchange (filled by parse_exchanges)."""

    def __init__(self):
        self.kex = None
        self.I_C = self.I_S = None
        self.fields = {}
        self.reply_seen = False
        self.client_newkeys = False
        self.server_newkeys = False


def parse_exchanges(tap):
    """Split tap.log into exchanges (tracked per direction, since one side may
    start exchange n+1 before the peer's NEWKEYS of exchange n is on the wire)
    and pull out the kex message fields."""
    out = []
    idx = [-1, -1]

    def get(i):
        while len(out) <= i:
            out.append(Exchange())
        return out[i]

    for d, p in tap.log:
        t = p.ptype
        if t == 20:
            idx[d] += 1
            ex = get(idx[d])
            if d == 0:
                ex.I_C = p.payload
            else:
                ex.I_S = p.payload
        elif idx[d] >= 0 and t is not None and 30 <= t <= 49:
            get(idx[d]).fields.setdefault((d, t), []).append(p.payload)
        elif idx[d] >= 0 and t == 21:
            ex = get(idx[d])
            if d == 0:
                ex.client_newkeys = True
            else:
                ex.server_newkeys = True
    for i, ex in enumerate(out):
        ex.neg = None
        if ex.I_C is not None and ex.I_S is not None:
            from .wiretap import negotiate, parse_kexinit
            try:
                ex.neg = negotiate(parse_kexinit(ex.I_C), parse_kexinit(ex.I_S))
                ex.kex = ex.neg["kex"]
            except TapError:
                pass
    return out


def _first(ex, d, t):
    v = ex.fields.get((d, t))
    return v[0] if v else None


def reply_fields(ex):
    """Return dict with K_S, sig and the hash input pieces, or None if the
    reply has not been seen."""
    kex = ex.kex
    if kex is None:
        return None
    r = {}
    if kex.startswith("diffie-hellman-group-exchange"):
        req = _first(ex, 0, 34)
        grp = _first(ex, 1, 31)
        init = _first(ex, 0, 32)
        rep = _first(ex, 1, 33)
        if not (req and grp and init and rep):
            return None
        rr = Reader(req); rr.byte()
        mn, n, mx = rr.u32(), rr.u32(), rr.u32()
        rg = Reader(grp); rg.byte()
        p_, g_ = rg.mpint(), rg.mpint()
        ri = Reader(init); ri.byte()
        e = ri.mpint()
        rp = Reader(rep); rp.byte()
        K_S = rp.string(); f = rp.mpint(); sig = rp.string()
        r["mid"] = struct.pack(">III", mn, n, mx) + mpint(p_) + mpint(g_) + mpint(e) + mpint(f)
        r.update(K_S=K_S, sig=sig, e=e, f=f, p=p_, g=g_)
    elif kex.startswith("diffie-hellman-group"):
        init = _first(ex, 0, 30)
        rep = _first(ex, 1, 31)
        if not (init and rep):
            return None
        ri = Reader(init); ri.byte()
        e = ri.mpint()
        rp = Reader(rep); rp.byte()
        K_S = rp.string(); f = rp.mpint(); sig = rp.string()
        r["mid"] = mpint(e) + mpint(f)
        r.update(K_S=K_S, sig=sig, e=e, f=f)
    else:  # ecdh-nist, curve25519
        init = _first(ex, 0, 30)
        rep = _first(ex, 1, 31)
        if not (init and rep):
            return None
        ri = Reader(init); ri.byte()
        Q_C = ri.string()
        rp = Reader(rep); rp.byte()
        K_S = rp.string(); Q_S = rp.string(); sig = rp.string()
        r["mid"] = sstr(Q_C) + sstr(Q_S)
        r.update(K_S=K_S, sig=sig, Q_C=Q_C, Q_S=Q_S)
    return r


def exchange_hash(ex, banner_c, banner_s, K, rf=None):
    rf = rf or reply_fields(ex)
    h = getattr(hashlib, KEX_HASH[ex.kex])
    data = (sstr(banner_c) + sstr(banner_s) + sstr(ex.I_C) + sstr(ex.I_S) + sstr(rf["K_S"])
            + rf["mid"] + mpint(K))
    return h(data).digest()


RSA_HASH = {"ssh-rsa": hashes.SHA1, "rsa-sha2-256": hashes.SHA256, "rsa-sha2-512": hashes.SHA512}
EC_CURVES = {"nistp256": (ec.SECP256R1, hashes.SHA256), "nistp384": (ec.SECP384R1, hashes.SHA384),
             "nistp521": (ec.SECP521R1, hashes.SHA512)}


def parse_sig(sig):
    r = Reader(sig)
    name = r.string().decode("ascii", "replace")
    blob = r.string()
    return name, blob


def verify_sig(hostkey_blob, sig, data):
    """True/False: does `sig` (SSH signature blob) verify over `data` under
    the SSH public key blob?  Also returns (key type, signature algorithm)."""
    r = Reader(hostkey_blob)
    ktype = r.string().decode("ascii", "replace")
    sname, sblob = parse_sig(sig)
    try:
        if ktype == "ssh-rsa":
            e = r.mpint(); n = r.mpint()
            pub = rsa.RSAPublicNumbers(e, n).public_key()
            if sname not in RSA_HASH:
                return False, ktype, sname
            pub.verify(sblob, data, padding.PKCS1v15(), RSA_HASH[sname]())
            return True, ktype, sname
        if ktype.startswith("ecdsa-sha2-"):
            cname = r.string().decode()
            point = r.string()
            curve, hcls = EC_CURVES[cname]
            pub = ec.EllipticCurvePublicKey.from_encoded_point(curve(), point)
            rs = Reader(sblob)
            rr, ss = rs.mpint(), rs.mpint()
            pub.verify(utils.encode_dss_signature(rr, ss), data, ec.ECDSA(hcls()))
            return sname == ktype, ktype, sname
        if ktype == "ssh-ed25519":
            pk = r.string()
            Ed25519PublicKey.from_public_bytes(pk).verify(sblob, data)
            return sname == ktype, ktype, sname
    except (InvalidSignature, ValueError, TapError, KeyError, IndexError):
        return False, ktype, sname
    return False, ktype, sname
