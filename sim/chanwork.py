"""CHAN engine workload: concurrent channels with writers and readers on both
sides of a real client/server transport pair, plus the ledgers the channel
properties (C19, C20, C21) are judged on.  All traffic goes through the public
Channel API; the ledgers are computed from the wire-order log of the
ObservingPacketizers and from an API recorder."""
import socket
import struct

from . import ssh, core
from .net import Link
from .wiretap import Reader


class ApiLog:
    """invoke/return events of application calls, stamped with sim.seq."""

    def __init__(self, sim):
        self.sim = sim
        self.events = []

    def call(self, who, name, fn, *a):
        seq0 = self.sim.record("api", who, name, "invoke")
        try:
            r = fn(*a)
        except Exception as e:
            self.events.append((seq0, self.sim.record("api", who, name, "raise"), who, name, a, e, False))
            raise
        self.events.append((seq0, self.sim.record("api", who, name, "return"), who, name, a, r, True))
        return r


class ChanSpec:
    def __init__(self):
        self.c2s = b""          # client -> server stdout
        self.s2c_out = b""
        self.s2c_err = b""
        self.exit_status = None
        self.combine_at = None  # None | number of stderr bytes after which the client switches combining on
        self.window = None
        self.max_packet = None
        self.ext_junk = []      # extended-data type codes injected by a byzantine server sender


def alphabet(sim, n, lo, hi):
    r = sim.payload
    span = hi - lo
    return bytes(lo + (b % span) for b in r.randbytes(n))


class Workload:
    def __init__(self, sim, nchan=1, latency=0.0, client_kw=None, server_kw=None, rekeys=0, compress=False,
                 pair_kw=None, timeout=120.0, read_sizes=(1, 7, 100, 4096, 65536), write_chunks=(1, 13, 1000, 40000)):
        self.sim = sim
        self.link = Link(sim, latency=(latency, latency))
        self.plog = []
        self.api = ApiLog(sim)
        kw = dict(pair_kw or {})
        kw.setdefault("plog", self.plog)
        self.p = ssh.Pair(sim, link=self.link, client_kw=client_kw, server_kw=server_kw, **kw)
        if compress:
            for t in (self.p.tc, self.p.ts):
                ssh.configure(t, comp="zlib")
        self.timeout = timeout
        self.read_sizes = read_sizes
        self.write_chunks = write_chunks
        self.rekeys = rekeys
        self.errors = []
        self.received = {}       # (chan index, side, stream) -> bytearray
        self.exit_seen = {}
        self.tasks = []
        self.chans = []

    def connect(self):
        self.p.start(timeout=60)
        self.p.wait_server()
        self.p.auth_password()

    def open(self, spec):
        sim = self.sim
        kw = {}
        if spec.window is not None:
            kw["window_size"] = spec.window
        if spec.max_packet is not None:
            kw["max_packet_size"] = spec.max_packet
        ch = self.p.tc.open_session(timeout=60, **kw)
        sch = self.p.ts.accept(60)
        if sch is None:
            raise RuntimeError("accept failed")
        ch.settimeout(self.timeout)
        sch.settimeout(self.timeout)
        self.chans.append((ch, sch, spec))
        return ch, sch

    def _guard(self, name, fn):
        def run():
            try:
                fn()
            except Exception as e:
                self.errors.append((name, e, self.sim.now))
        return run

    def _writer(self, who, chan, data, stderr):
        sim = self.sim
        floor = max(1, len(data) // 60)
        chunks = [c for c in self.write_chunks if c >= floor] or [max(floor, self.write_chunks[-1])]
        style = sim.choose(3)      # 0: sendall in chunks, 1: send loop, 2: one big sendall

        def run():
            i = 0
            n = len(data)
            if style == 2:
                self.api.call(who, "sendall_stderr" if stderr else "sendall",
                              chan.sendall_stderr if stderr else chan.sendall, data)
                return
            while i < n:
                k = chunks[sim.choose(len(chunks))]
                piece = data[i:i + k]
                if style == 0:
                    self.api.call(who, "sendall_stderr" if stderr else "sendall",
                                  chan.sendall_stderr if stderr else chan.sendall, piece)
                    i += len(piece)
                else:
                    sent = self.api.call(who, "send_stderr" if stderr else "send",
                                         chan.send_stderr if stderr else chan.send, piece)
                    if sent == 0:
                        raise socket.error("send returned 0 with %d bytes left" % (n - i))
                    i += sent
        return run

    def _reader(self, who, key, chan, total, stderr, combine_after=None, other_key=None):
        sim = self.sim
        floor = max(1, total() // 60)
        sizes = [c for c in self.read_sizes if c >= floor] or [max(floor, self.read_sizes[-1])]
        buf = self.received.setdefault(key, bytearray())

        def run():
            while len(buf) < total():
                n = sizes[sim.choose(len(sizes))]
                x = self.api.call(who, "recv_stderr" if stderr else "recv",
                                  chan.recv_stderr if stderr else chan.recv, n)
                if not x:
                    break
                buf.extend(x)
        return run

    def start_traffic(self):
        sim = self.sim
        for idx, (ch, sch, spec) in enumerate(self.chans):
            kc2s, kout, kerr = (idx, "s", "out"), (idx, "c", "out"), (idx, "c", "err")
            for k in (kc2s, kout, kerr):
                self.received.setdefault(k, bytearray())
            if spec.c2s:
                self.spawn("w-c%d" % idx, self._writer("c", ch, spec.c2s, False))
                self.spawn("r-s%d" % idx, self._reader("s", kc2s, sch, lambda s=spec: len(s.c2s), False))
            if spec.combine_at is None:
                if spec.s2c_out:
                    self.spawn("w-s%d" % idx, self._writer("s", sch, spec.s2c_out, False))
                    self.spawn("r-c%d" % idx, self._reader("c", kout, ch, lambda s=spec: len(s.s2c_out), False))
                if spec.s2c_err:
                    self.spawn("we-s%d" % idx, self._writer("s", sch, spec.s2c_err, True))
                    self.spawn("re-c%d" % idx, self._reader("c", kerr, ch, lambda s=spec: len(s.s2c_err), True))
            elif spec.combine_at == -1:
                # the server sends everything and EOF first; only then does the client switch combining on
                t1 = self.spawn("w-s%d" % idx, self._writer("s", sch, spec.s2c_out, False))
                t2 = self.spawn("we-s%d" % idx, self._writer("s", sch, spec.s2c_err, True))

                def eof_sender(sch=sch, t1=t1, t2=t2):
                    self.sim.join_task(t1, self.timeout); self.sim.join_task(t2, self.timeout)
                    sch.shutdown_write()
                self.spawn("eof-s%d" % idx, eof_sender)
                self.spawn("rc-c%d" % idx, self._combine_after_eof_reader(idx, ch, spec))
            else:
                self.spawn("w-s%d" % idx, self._writer("s", sch, spec.s2c_out, False))
                self.spawn("we-s%d" % idx, self._writer("s", sch, spec.s2c_err, True))
                self.spawn("rc-c%d" % idx, self._combining_reader(idx, ch, spec))
            if spec.exit_status is not None:
                def exiter(sch=sch, st=spec.exit_status):
                    self.sim.sleep(0.01)
                    self.api.call("s", "send_exit_status", sch.send_exit_status, st)

                def exit_reader(ch=ch, idx=idx):
                    if ch.status_event.wait(self.timeout):
                        self.exit_seen[idx] = ch.recv_exit_status()
                self.spawn("x-s%d" % idx, exiter)
                self.spawn("x-c%d" % idx, exit_reader)

    def _combining_reader(self, idx, ch, spec):
        """Reads stderr separately until `combine_at` stderr bytes were read, then
        switches combining on (possibly with stderr bytes buffered) and reads the
        rest from stdout."""
        sim = self.sim
        out = self.received[(idx, "c", "out")]
        err = self.received[(idx, "c", "err")]
        total = len(spec.s2c_out) + len(spec.s2c_err)
        floor = max(1, total // 60)
        sizes = [c for c in self.read_sizes if c >= floor] or [max(floor, self.read_sizes[-1])]

        def run():
            ch.settimeout(0.05)
            combined = False
            idle = 0
            while len(out) + len(err) < total and idle < 400:
                if not combined and len(err) >= spec.combine_at:
                    self.api.call("c", "set_combine_stderr", ch.set_combine_stderr, True)
                    combined = True
                    self.combined_at = (len(out), len(err))
                got = False
                try:
                    x = self.api.call("c", "recv", ch.recv, sizes[sim.choose(len(sizes))])
                    if x:
                        out.extend(x); got = True
                except socket.timeout:
                    pass
                if not combined:
                    try:
                        x = self.api.call("c", "recv_stderr", ch.recv_stderr, sizes[sim.choose(len(sizes))])
                        if x:
                            err.extend(x); got = True
                    except socket.timeout:
                        pass
                idle = 0 if got else idle + 1
            if combined:
                # nothing may show up on stderr any more
                try:
                    x = ch.recv_stderr(100)
                    if x:
                        self.stderr_after_combine = bytes(x)
                except socket.timeout:
                    pass
        return run

    def _combine_after_eof_reader(self, idx, ch, spec):
        sim = self.sim
        out = self.received[(idx, "c", "out")]

        def run():
            waited = 0.0
            while not ch.eof_received and waited < self.timeout:
                sim.sleep(0.05); waited += 0.05
            self.api.call("c", "set_combine_stderr", ch.set_combine_stderr, True)
            self.combined_at = (0, 0)
            while True:
                x = self.api.call("c", "recv", ch.recv, 65536)
                if not x:
                    break
                out.extend(x)
        return run

    def spawn(self, name, fn):
        t = self.sim.spawn(self._guard(name, fn), name)
        self.tasks.append(t)
        return t

    def rekey_task(self):
        sim = self.sim
        delays = [(0.0, 0.01, 0.1)[sim.choose(3)] for _ in range(self.rekeys)]
        who = [(self.p.tc, self.p.ts)[sim.choose(2)] for _ in range(self.rekeys)]

        def run():
            for d, t in zip(delays, who):
                sim.sleep(d)
                t.renegotiate_keys()
        if self.rekeys:
            self.spawn("rekeyer", run)

    def wait(self, limit=600.0):
        sim = self.sim
        end = sim.now + limit
        while any(t.state != core.DONE for t in self.tasks) and sim.now < end:
            sim.sleep(0.25)
        return [t for t in self.tasks if t.state != core.DONE]

    # ------------------------------------------------------------ wire ledgers
    def wire_ledger(self):
        """Per direction ('c' sends / 's' sends) and channel (receiver's id):
        initial window and max packet as advertised on the wire, list of data
        sends and of adjusts with their sequence numbers."""
        opens = {}      # (opener side, opener's chan id) -> (window, maxpacket)
        chan = {}       # (side, local id) -> dict(peer_id, in_window, in_maxpkt)
        led = {}        # (sender side, sender's REMOTE id == receiver's local id) -> ledger
        events = sorted(self.plog)
        # pass 1: channel parameters from OPEN / OPEN_CONFIRMATION as sent
        for seq, now, side, kind, ptype, payload in events:
            if kind != "tx":
                continue
            r = Reader(payload); r.byte()
            if ptype == 90:
                r.string(); sender = r.u32(); win = r.u32(); mp = r.u32()
                opens[(side, sender)] = (win, mp)
            elif ptype == 91:
                recipient = r.u32(); sender = r.u32(); win = r.u32(); mp = r.u32()
                other = "s" if side == "c" else "c"
                # `side` receives on channel `sender` with (win, mp); `other` receives on `recipient`
                chan[(side, sender)] = {"win": win, "mp": mp}
                if (other, recipient) in opens:
                    w2, m2 = opens[(other, recipient)]
                    chan[(other, recipient)] = {"win": w2, "mp": m2}
        return chan, events


def parse_data(ptype, payload):
    r = Reader(payload); r.byte()
    cid = r.u32()
    if ptype == 95:
        code = r.u32()
    else:
        code = None
    n = r.u32()
    return cid, code, n
