"""Independent SSH binary-packet decoder and RFC 4253 key derivation.

Deliberately shares no code with paramiko.packet / paramiko.message /
paramiko.transport: it uses `cryptography`, `hmac`, `hashlib`, `zlib` and its
own small wire reader.  It is the oracle for C03/C04 and part of C01, C09-C11.
"""
import hashlib
import hmac as _hmac
import struct
import zlib

from cryptography.hazmat.primitives.ciphers import Cipher, algorithms, modes
from cryptography.hazmat.primitives.ciphers.aead import AESGCM

try:  # cryptography >= 43 moved TripleDES
    from cryptography.hazmat.decrepit.ciphers.algorithms import TripleDES
except ImportError:  # pragma: no cover
    TripleDES = algorithms.TripleDES

# name -> (kind, key bytes, iv bytes, block size)
CIPHERS = {
    "aes128-ctr": ("ctr", 16, 16, 16),
    "aes192-ctr": ("ctr", 24, 16, 16),
    "aes256-ctr": ("ctr", 32, 16, 16),
    "aes128-cbc": ("cbc", 16, 16, 16),
    "aes192-cbc": ("cbc", 24, 16, 16),
    "aes256-cbc": ("cbc", 32, 16, 16),
    "3des-cbc": ("3des", 24, 8, 8),
    "aes128-gcm@openssh.com": ("gcm", 16, 12, 16),
    "aes256-gcm@openssh.com": ("gcm", 32, 12, 16),
}
# name -> (hash, key bytes, tag bytes, etm)
MACS = {
    "hmac-sha1": ("sha1", 20, 20, False),
    "hmac-sha1-96": ("sha1", 20, 12, False),
    "hmac-sha2-256": ("sha256", 32, 32, False),
    "hmac-sha2-512": ("sha512", 64, 64, False),
    "hmac-sha2-256-etm@openssh.com": ("sha256", 32, 32, True),
    "hmac-sha2-512-etm@openssh.com": ("sha512", 64, 64, True),
    "hmac-md5": ("md5", 16, 16, False),
    "hmac-md5-96": ("md5", 16, 12, False),
}
KEX_HASH = {
    "diffie-hellman-group1-sha1": "sha1",
    "diffie-hellman-group14-sha1": "sha1",
    "diffie-hellman-group-exchange-sha1": "sha1",
    "diffie-hellman-group14-sha256": "sha256",
    "diffie-hellman-group-exchange-sha256": "sha256",
    "diffie-hellman-group16-sha512": "sha512",
    "ecdh-sha2-nistp256": "sha256",
    "ecdh-sha2-nistp384": "sha384",
    "ecdh-sha2-nistp521": "sha512",
    "curve25519-sha256@libssh.org": "sha256",
    "curve25519-sha256": "sha256",
}


class TapError(Exception):
    pass


def mpint(n):
    """RFC 4251 mpint encoding (length-prefixed)."""
    if n == 0:
        return struct.pack(">I", 0)
    if n > 0:
        nb = (n.bit_length() + 8) // 8  # always room for a zero sign bit
        b = n.to_bytes(nb, "big")
        while len(b) > 1 and b[0] == 0 and not (b[1] & 0x80):
            b = b[1:]
    else:
        nb = ((-n).bit_length() + 8) // 8 + 1
        b = n.to_bytes(nb, "big", signed=True)
        while len(b) > 1 and b[0] == 0xFF and (b[1] & 0x80):
            b = b[1:]
    return struct.pack(">I", len(b)) + b


def derive(K, H, session_id, letter, nbytes, hashname):
    """RFC 4253 section 7.2."""
    h = getattr(hashlib, hashname)
    kb = mpint(K)
    out = h(kb + H + letter.encode() + session_id).digest()
    while len(out) < nbytes:
        out += h(kb + H + out).digest()
    return out[:nbytes]


class Reader:
    def __init__(self, data):
        self.d = data
        self.i = 0

    def byte(self):
        v = self.d[self.i]
        self.i += 1
        return v

    def u32(self):
        if self.i + 4 > len(self.d):
            raise TapError("short u32")
        v = struct.unpack_from(">I", self.d, self.i)[0]
        self.i += 4
        return v

    def string(self):
        n = self.u32()
        if self.i + n > len(self.d):
            raise TapError("short string")
        v = self.d[self.i:self.i + n]
        self.i += n
        return bytes(v)

    def namelist(self):
        s = self.string().decode("utf-8", "replace")
        return s.split(",") if s else []

    def mpint(self):
        return int.from_bytes(self.string(), "big", signed=True)

    def boolean(self):
        return self.byte() != 0

    def rest(self):
        return bytes(self.d[self.i:])


def parse_kexinit(payload):
    """payload includes the type byte (20)."""
    r = Reader(payload)
    r.byte()
    r.i += 16
    names = ["kex", "hostkey", "enc_c2s", "enc_s2c", "mac_c2s", "mac_s2c",
             "comp_c2s", "comp_s2c", "lang_c2s", "lang_s2c"]
    out = {}
    for n in names:
        out[n] = r.namelist()
    out["first_kex_follows"] = r.boolean()
    return out


PSEUDO = ("ext-info-c", "ext-info-s", "kex-strict-c-v00@openssh.com",
          "kex-strict-s-v00@openssh.com")


def negotiate(ckex, skex, mac_needed_for_aead=False):
    """RFC 4253 7.1: first client name the server also lists, per category.
    Returns dict or raises TapError if some category has no match."""
    def first(cl, sl, what, skip=()):
        for n in cl:
            if n in skip:
                continue
            if n in sl:
                return n
        raise TapError("no common " + what)
    res = {}
    res["kex"] = first(ckex["kex"], skex["kex"], "kex", PSEUDO)
    res["hostkey"] = first(ckex["hostkey"], skex["hostkey"], "hostkey")
    res["enc_c2s"] = first(ckex["enc_c2s"], skex["enc_c2s"], "enc_c2s")
    res["enc_s2c"] = first(ckex["enc_s2c"], skex["enc_s2c"], "enc_s2c")
    for d in ("c2s", "s2c"):
        if CIPHERS.get(res["enc_" + d], ("",))[0] == "gcm" and not mac_needed_for_aead:
            # AEAD: MAC negotiation result is irrelevant, but paramiko (like
            # OpenSSH) still negotiates one; do so leniently
            try:
                res["mac_" + d] = first(ckex["mac_" + d], skex["mac_" + d], "mac")
            except TapError:
                res["mac_" + d] = None
        else:
            res["mac_" + d] = first(ckex["mac_" + d], skex["mac_" + d], "mac_" + d)
        res["comp_" + d] = first(ckex["comp_" + d], skex["comp_" + d], "comp_" + d)
    res["strict"] = ("kex-strict-c-v00@openssh.com" in ckex["kex"]
                     and "kex-strict-s-v00@openssh.com" in skex["kex"])
    return res


class Packet:
    __slots__ = ("seqno", "payload", "raw_payload", "padlen", "packet_length", "mac_ok",
                 "enc_len", "mac_len", "framing", "block", "wire_len", "epoch")

    @property
    def ptype(self):
        return self.payload[0] if self.payload else None


class Direction:
    """Decoder state for one direction of one connection."""

    def __init__(self):
        self.buf = bytearray()
        self.seq = 0
        self.kind = None          # None = cleartext
        self.block = 8
        self.dec = None
        self.gcm = None
        self.gcm_iv = None
        self.mac = None           # (hashname, key, taglen, etm)
        self.decomp = None
        self.pending = None       # keyset to apply after next NEWKEYS
        self.epoch = 0
        self.packets = []
        self.first_block = None
        self.bytes_epoch = 0
        self.packets_epoch = 0
        self.compression_name = "none"
        self.delayed_comp_armed = False
        self.on_packet = None

    def set_keys(self, cipher, mac, comp, key, iv, mackey, reset_seq, comp_now=True):
        kind, klen, ivlen, block = CIPHERS[cipher]
        self.kind = kind
        self.block = block
        self.gcm = None
        self.dec = None
        if kind == "ctr":
            self.dec = Cipher(algorithms.AES(key), modes.CTR(iv)).decryptor()
        elif kind == "cbc":
            self.dec = Cipher(algorithms.AES(key), modes.CBC(iv)).decryptor()
        elif kind == "3des":
            self.dec = Cipher(TripleDES(key), modes.CBC(iv)).decryptor()
        else:
            self.gcm = AESGCM(key)
            self.gcm_iv = iv
        if kind == "gcm":
            self.mac = None
        else:
            hn, kl, tl, etm = MACS[mac]
            self.mac = (hn, mackey, tl, etm)
        self.compression_name = comp
        if comp == "zlib" or (comp == "zlib@openssh.com" and comp_now):
            self.decomp = zlib.decompressobj()
        else:
            self.decomp = None
        self.delayed_comp_armed = (comp == "zlib@openssh.com" and not comp_now)
        if reset_seq:
            self.seq = 0
        self.epoch += 1
        self.bytes_epoch = 0
        self.packets_epoch = 0
        self.first_block = None

    def start_delayed_compression(self):
        if self.delayed_comp_armed:
            self.decomp = zlib.decompressobj()
            self.delayed_comp_armed = False

    def feed(self, data):
        """Append wire bytes; return the list of newly completed Packets."""
        self.buf += data
        out = []
        while True:
            p = self._one()
            if p is None:
                break
            out.append(p)
            self.packets.append(p)
            if self.on_packet is not None:
                self.on_packet(self, p)
            if p.payload and p.payload[0] == 21 and self.pending is not None:
                ks = self.pending
                self.pending = None
                self.set_keys(*ks)
        return out

    def _mac_check(self, data, tag):
        hn, key, tl, etm = self.mac
        exp = _hmac.new(key, data, getattr(hashlib, hn)).digest()[:tl]
        return _hmac.compare_digest(exp, bytes(tag))

    def _one(self):
        buf = self.buf
        p = Packet()
        p.seqno = self.seq
        p.epoch = self.epoch
        p.block = self.block
        if self.kind is None:
            if len(buf) < 5:
                return None
            plen = struct.unpack_from(">I", buf, 0)[0]
            if plen > 1 << 20:
                raise TapError("cleartext packet length %d" % plen)
            if len(buf) < 4 + plen:
                return None
            body = bytes(buf[4:4 + plen])
            del buf[:4 + plen]
            p.framing = "clear"
            p.mac_len = 0
            p.mac_ok = True
            p.enc_len = 4 + plen
            p.wire_len = 4 + plen
        elif self.kind == "gcm":
            if len(buf) < 4:
                return None
            plen = struct.unpack_from(">I", buf, 0)[0]
            if plen > 1 << 20:
                raise TapError("gcm packet length %d" % plen)
            if len(buf) < 4 + plen + 16:
                return None
            aad = bytes(buf[:4])
            ct = bytes(buf[4:4 + plen + 16])
            del buf[:4 + plen + 16]
            try:
                body = self.gcm.decrypt(self.gcm_iv, ct, aad)
                p.mac_ok = True
            except Exception:
                raise TapError("GCM tag mismatch at seq %d" % self.seq)
            ctr = int.from_bytes(self.gcm_iv[4:], "big") + 1
            self.gcm_iv = self.gcm_iv[:4] + (ctr & (2 ** 64 - 1)).to_bytes(8, "big")
            p.framing = "gcm"
            p.mac_len = 16
            p.enc_len = plen
            p.wire_len = 4 + plen + 16
        else:
            hn, key, tl, etm = self.mac
            if etm:
                if len(buf) < 4:
                    return None
                plen = struct.unpack_from(">I", buf, 0)[0]
                if plen > 1 << 20:
                    raise TapError("etm packet length %d" % plen)
                if len(buf) < 4 + plen + tl:
                    return None
                ct = bytes(buf[4:4 + plen])
                tag = bytes(buf[4 + plen:4 + plen + tl])
                p.mac_ok = self._mac_check(struct.pack(">II", self.seq, plen) + ct, tag)
                if not p.mac_ok:
                    raise TapError("ETM MAC mismatch at seq %d" % self.seq)
                if plen % self.block:
                    raise TapError("etm ciphertext not block aligned")
                body = self.dec.update(ct)
                del buf[:4 + plen + tl]
                p.framing = "etm"
                p.mac_len = tl
                p.enc_len = plen
                p.wire_len = 4 + plen + tl
            else:
                if self.first_block is None:
                    if len(buf) < self.block:
                        return None
                    self.first_block = self.dec.update(bytes(buf[:self.block]))
                fb = self.first_block
                plen = struct.unpack_from(">I", fb, 0)[0]
                if plen > 1 << 20:
                    raise TapError("classic packet length %d (key mismatch?)" % plen)
                if (4 + plen) % self.block:
                    raise TapError("classic packet not block aligned: 4+%d %% %d" % (plen, self.block))
                if len(buf) < 4 + plen + tl:
                    return None
                rest = self.dec.update(bytes(buf[self.block:4 + plen]))
                clear = fb + rest
                tag = bytes(buf[4 + plen:4 + plen + tl])
                p.mac_ok = self._mac_check(struct.pack(">I", self.seq) + clear, tag)
                if not p.mac_ok:
                    raise TapError("MAC mismatch at seq %d" % self.seq)
                del buf[:4 + plen + tl]
                self.first_block = None
                body = clear[4:]
                p.framing = "classic"
                p.mac_len = tl
                p.enc_len = 4 + plen
                p.wire_len = 4 + plen + tl
        p.packet_length = plen
        p.padlen = body[0]
        if p.padlen + 1 > plen:
            raise TapError("padding %d exceeds packet length %d" % (p.padlen, plen))
        raw = body[1:plen - p.padlen]
        p.raw_payload = raw
        if self.decomp is not None:
            raw = self.decomp.decompress(raw)
        p.payload = raw
        self.seq = (self.seq + 1) & 0xFFFFFFFF
        self.bytes_epoch += p.wire_len
        self.packets_epoch += 1
        return p


def check_framing(p):
    """RFC 4253 section 6 invariants for one decoded Packet; returns list of
    violated rule names."""
    bad = []
    if p.packet_length != 1 + len(p.raw_payload) + p.padlen:
        bad.append("packet_length != 1 + payload + padding")
    if not (4 <= p.padlen <= 255):
        bad.append("padding %d outside 4..255" % p.padlen)
    unit = max(8, p.block)
    if p.enc_len % unit:
        bad.append("encrypted portion %d not a multiple of %d (%s)" % (p.enc_len, unit, p.framing))
    return bad


def keyset(neg, direction, K, H, session_id, role_letters=None, comp_now=True):
    """Build Direction.set_keys arguments for 'c2s' or 's2c' by RFC 7.2."""
    hashname = KEX_HASH[neg["kex"]]
    cipher = neg["enc_" + direction]
    mac = neg["mac_" + direction]
    comp = neg["comp_" + direction]
    kind, klen, ivlen, block = CIPHERS[cipher]
    iv_l, key_l, mac_l = ("A", "C", "E") if direction == "c2s" else ("B", "D", "F")
    iv = derive(K, H, session_id, iv_l, ivlen, hashname)
    key = derive(K, H, session_id, key_l, klen, hashname)
    if kind == "gcm":
        mk = None
    else:
        mk = derive(K, H, session_id, mac_l, MACS[mac][1], hashname)
    return (cipher, mac, comp, key, iv, mk, neg.get("strict", False), comp_now)


class HarnessError(Exception):
    """The tap could not be keyed (a harness/seam problem, not a finding)."""


class LinkTap:
    """Passive observer of one Link: decodes both directions, re-keying itself
    at every NEWKEYS from (K, H) captured at the transports' _set_K_H seam and
    the KEXINIT payloads seen on the wire."""

    def __init__(self, link, sim=None):
        self.link = link
        self.sim = sim
        self.dirs = [Direction(), Direction()]     # 0: client->server, 1: server->client
        for i, d in enumerate(self.dirs):
            d.on_packet = (lambda dd, p, i=i: self._packet(i, p))
        self.banner = [None, None]
        self._pre = [bytearray(), bytearray()]
        self.kexinits = [[], []]                   # parsed KEXINITs per direction
        self.kexinit_raw = [[], []]
        self.newkeys = [0, 0]
        self.kh = {0: [], 1: []}                   # per side: list of (K, H) per exchange
        self.session_id = None
        self.negs = []
        self.log = []                              # (dir, Packet) in wire order
        self.auth_done = [False, False]            # per direction: sender is past auth
        self.error = None
        self.keysets = []                          # (exchange, direction, keyset tuple)
        self.on_packet = None
        self.agreed_kex = {0: [], 1: []}
        link.on_segment = self._segment

    # seams called by TapTransport
    def note_kh(self, side, K, H):
        self.kh[side].append((K, H))
        if self.session_id is None:
            self.session_id = H

    def note_auth(self, side):
        self.auth_done[side] = True
        self.dirs[side].start_delayed_compression()

    def _segment(self, link, d, data):
        if self.error is not None:
            return
        if self.banner[d] is None:
            self._pre[d] += data
            nl = self._pre[d].find(b"\n")
            if nl < 0:
                return
            self.banner[d] = bytes(self._pre[d][:nl]).rstrip(b"\r")
            data = bytes(self._pre[d][nl + 1:])
            if not data:
                return
        try:
            self.dirs[d].feed(data)
        except TapError as e:
            self.error = (d, str(e))

    def _packet(self, d, p):
        self.log.append((d, p))
        t = p.payload[0] if p.payload else None
        if t == 20:
            self.kexinits[d].append(parse_kexinit(p.payload))
            self.kexinit_raw[d].append(p.payload)
        elif t == 21:
            ex = self.newkeys[d]
            self.newkeys[d] += 1
            if len(self.kexinits[0]) <= ex or len(self.kexinits[1]) <= ex:
                raise HarnessError("NEWKEYS before both KEXINITs of exchange %d" % ex)
            while len(self.negs) <= ex:
                self.negs.append(negotiate(self.kexinits[0][len(self.negs)],
                                           self.kexinits[1][len(self.negs)]))
            neg = self.negs[ex]
            # strict mode is decided by the INITIAL pair of KEXINITs and holds for the connection (the markers in
            # later KEXINITs are to be ignored, and OpenSSH does not even send them)
            neg["strict"] = self.negs[0]["strict"]
            if len(self.kh[d]) <= ex:
                raise HarnessError("side %d sent NEWKEYS for exchange %d but no (K,H) was captured" % (d, ex))
            K, H = self.kh[d][ex]
            ks = keyset(neg, "c2s" if d == 0 else "s2c", K, H, self.session_id,
                        comp_now=self.auth_done[d])
            self.keysets.append((ex, d, ks))
            self.dirs[d].pending = ks
        if self.on_packet is not None:
            self.on_packet(d, p)
