"""Simulated threading / time / os / crypto-entropy seams and their installation
into the paramiko modules (DESIGN 3.1).  No file under /repo is modified."""
import os as _real_os
import sys
import threading as _rt
import time as _real_time
import types

from . import core
from .core import SimAbort

_get_ident = core._get_ident


def _cur():
    return core.CURRENT


# ---------------------------------------------------------------- threading
class Lock:
    __slots__ = ("_sim", "owner", "waitq", "csn")

    def __init__(self):
        self._sim = core.CURRENT
        self.owner = None
        self.waitq = []
        self.csn = 0  # number of completed acquisitions (critical sections)

    def acquire(self, blocking=True, timeout=-1):
        sim = self._sim
        if sim is None:
            return True
        if sim.aborting:
            raise SimAbort()
        me = sim.current
        if me is None or me.ident != _get_ident():
            return True
        sim.step()
        if self.owner is not None:
            if not blocking:
                return False
            deadline = None if (timeout is None or timeout < 0) else sim.now + timeout
            while self.owner is not None:
                if deadline is None:
                    sim.block(self.waitq, None)
                else:
                    rem = deadline - sim.now
                    if rem <= 0:
                        return False
                    sim.block(self.waitq, rem)
        self.owner = sim.current
        self.csn += 1
        return True

    def release(self):
        sim = self._sim
        if sim is None or sim.aborting:
            return
        me = sim.current
        if me is None or me.ident != _get_ident():
            return
        if self.owner is None:
            raise RuntimeError("release unlocked lock")
        self.owner = None
        if self.waitq:
            sim.wake(self.waitq, 1)
        sim.step()

    def locked(self):
        return self.owner is not None

    def __enter__(self):
        self.acquire()
        return self

    def __exit__(self, *a):
        self.release()

    # Condition support (no yield between release and wait)
    def _release_save(self):
        sim = self._sim
        self.owner = None
        if self.waitq:
            sim.wake(self.waitq, 1)
        return None

    def _acquire_restore(self, saved):
        sim = self._sim
        while self.owner is not None:
            sim.block(self.waitq, None)
        self.owner = sim.current
        self.csn += 1

    def _is_owned(self):
        sim = self._sim
        return sim is not None and self.owner is sim.current


class RLock:
    __slots__ = ("_sim", "owner", "count", "waitq")

    def __init__(self):
        self._sim = core.CURRENT
        self.owner = None
        self.count = 0
        self.waitq = []

    def acquire(self, blocking=True, timeout=-1):
        sim = self._sim
        if sim is None:
            return True
        if sim.aborting:
            raise SimAbort()
        me = sim.current
        if me is None or me.ident != _get_ident():
            return True
        if self.owner is me:
            self.count += 1
            return True
        sim.step()
        if self.owner is not None:
            if not blocking:
                return False
            deadline = None if (timeout is None or timeout < 0) else sim.now + timeout
            while self.owner is not None:
                if deadline is None:
                    sim.block(self.waitq, None)
                else:
                    rem = deadline - sim.now
                    if rem <= 0:
                        return False
                    sim.block(self.waitq, rem)
        self.owner = sim.current
        self.count = 1
        return True

    def release(self):
        sim = self._sim
        if sim is None or sim.aborting:
            return
        me = sim.current
        if me is None or me.ident != _get_ident():
            return
        if self.owner is not me:
            raise RuntimeError("cannot release un-acquired lock")
        self.count -= 1
        if self.count == 0:
            self.owner = None
            if self.waitq:
                sim.wake(self.waitq, 1)
            sim.step()

    def __enter__(self):
        self.acquire()
        return self

    def __exit__(self, *a):
        self.release()

    def _release_save(self):
        sim = self._sim
        saved = self.count
        self.count = 0
        self.owner = None
        if self.waitq:
            sim.wake(self.waitq, 1)
        return saved

    def _acquire_restore(self, saved):
        sim = self._sim
        while self.owner is not None:
            sim.block(self.waitq, None)
        self.owner = sim.current
        self.count = saved

    def _is_owned(self):
        sim = self._sim
        return sim is not None and self.owner is sim.current


class Condition:
    def __init__(self, lock=None):
        self._sim = core.CURRENT
        if lock is None:
            lock = RLock()
        self._lock = lock
        self.acquire = lock.acquire
        self.release = lock.release
        self.waitq = []

    def __enter__(self):
        return self._lock.__enter__()

    def __exit__(self, *a):
        return self._lock.__exit__(*a)

    def wait(self, timeout=None):
        sim = self._sim
        if sim is None:
            return True
        if sim.aborting:
            raise SimAbort()
        me = sim.current
        if me is None or me.ident != _get_ident():
            return False
        if not self._lock._is_owned():
            raise RuntimeError("cannot wait on un-acquired lock")
        if timeout is not None and timeout <= 0:
            # CPython: releases, tries a non-blocking acquire of the waiter
            # lock (fails), re-acquires.  Yield in between.
            saved = self._lock._release_save()
            sim.step()
            self._lock._acquire_restore(saved)
            return False
        saved = self._lock._release_save()
        try:
            notified = sim.block(self.waitq, timeout)
        finally:
            if not sim.aborting:
                self._lock._acquire_restore(saved)
        return notified

    def wait_for(self, predicate, timeout=None):
        sim = self._sim
        endtime = None
        result = predicate()
        while not result:
            if timeout is not None:
                if endtime is None:
                    endtime = sim.now + timeout
                wt = endtime - sim.now
                if wt <= 0:
                    break
                self.wait(wt)
            else:
                self.wait(None)
            result = predicate()
        return result

    def notify(self, n=1):
        sim = self._sim
        if sim is None or sim.aborting:
            return
        me = sim.current
        if me is None or me.ident != _get_ident():
            return
        if not self._lock._is_owned():
            raise RuntimeError("cannot notify on un-acquired lock")
        sim.wake(self.waitq, n)

    def notify_all(self):
        self.notify(1 << 30)

    notifyAll = notify_all


class Event:
    __slots__ = ("_sim", "flag", "waitq")

    def __init__(self):
        self._sim = core.CURRENT
        self.flag = False
        self.waitq = []

    def is_set(self):
        sim = self._sim
        if sim is not None and not sim.aborting:
            sim.step()
        return self.flag

    isSet = is_set

    def set(self):
        sim = self._sim
        self.flag = True
        if sim is None or sim.aborting:
            return
        me = sim.current
        if me is None or me.ident != _get_ident():
            return
        if self.waitq:
            sim.wake_all(self.waitq)
        sim.step()

    def clear(self):
        sim = self._sim
        self.flag = False
        if sim is None or sim.aborting:
            return
        sim.step()

    def wait(self, timeout=None):
        sim = self._sim
        if sim is None:
            return self.flag
        if sim.aborting:
            raise SimAbort()
        me = sim.current
        if me is None or me.ident != _get_ident():
            return self.flag
        sim.step()
        if self.flag:
            return True
        sim.block(self.waitq, timeout)
        return self.flag


class Timer(_rt.Thread):
    """threading.Timer over a simulated Event (the real one waits for real)."""

    def __init__(self, interval, function, args=None, kwargs=None):
        _rt.Thread.__init__(self)
        self.interval = interval
        self.function = function
        self.args = args if args is not None else []
        self.kwargs = kwargs if kwargs is not None else {}
        self.finished = Event()
        self._sim_name = "Timer"
        self.daemon = True

    def cancel(self):
        self.finished.set()

    def run(self):
        self.finished.wait(self.interval)
        if not self.finished.flag:
            self.function(*self.args, **self.kwargs)
        self.finished.set()


class _SimThreadingModule(types.ModuleType):
    """Stands in for `threading` inside paramiko modules."""

    def __getattr__(self, name):
        return getattr(_rt, name)


simthreading = _SimThreadingModule("simthreading")
simthreading.Lock = Lock
simthreading.RLock = RLock
simthreading.Condition = Condition
simthreading.Event = Event
simthreading.Timer = Timer
simthreading.Thread = _rt.Thread          # start/join/is_alive patched globally
simthreading.current_thread = _rt.current_thread
simthreading.local = _rt.local
simthreading.get_ident = _rt.get_ident


# ---------------------------------------------------------------- time
def _straggler_check():
    th = _rt.current_thread()
    s = getattr(th, "_sim", None)
    if s is not None and s.aborting:
        raise SimAbort()


def sim_time():
    sim = core.CURRENT
    if sim is None:
        return core.EPOCH
    if sim.holder() and not sim.aborting:
        sim.step()
    return core.EPOCH + sim.now


def sim_monotonic():
    sim = core.CURRENT
    if sim is None:
        return 0.0
    if sim.holder() and not sim.aborting:
        sim.step()
    return sim.now


def sim_sleep(d):
    sim = core.CURRENT
    if sim is None or not sim.holder():
        _straggler_check()
        _real_time.sleep(min(max(d, 0), 0.005))
        return
    if sim.aborting:
        raise SimAbort()
    sim.block([], max(d, 0.0)) if d > 0 else sim.step()


class _SimTimeModule(types.ModuleType):
    def __getattr__(self, name):
        return getattr(_real_time, name)


simtime = _SimTimeModule("simtime")
simtime.time = sim_time
simtime.sleep = sim_sleep
simtime.monotonic = sim_monotonic
simtime.perf_counter = sim_monotonic


# ---------------------------------------------------------------- os
def sim_urandom(n):
    sim = core.CURRENT
    if sim is None:
        return bytes(n)
    if sim.holder() and not sim.aborting:
        sim.step()      # a yield point: a loop that keeps drawing randomness shows up in the step budget
    return sim.entropy.randbytes(n)


class _SimOsModule(types.ModuleType):
    def __getattr__(self, name):
        return getattr(_real_os, name)


def make_os(**overrides):
    m = _SimOsModule("simos")
    m.urandom = sim_urandom
    for k, v in overrides.items():
        setattr(m, k, v)
    return m


simos = make_os()


# ---------------------------------------------------------------- crypto entropy
def _install_crypto(mods, saved):
    from cryptography.hazmat.primitives.asymmetric import ec as real_ec
    from cryptography.hazmat.primitives.asymmetric import x25519 as real_x

    class X25519PrivateKeyProxy:
        @staticmethod
        def generate():
            return real_x.X25519PrivateKey.from_private_bytes(sim_urandom(32))

        from_private_bytes = staticmethod(real_x.X25519PrivateKey.from_private_bytes)

    class EcProxy(types.ModuleType):
        def __getattr__(self, name):
            return getattr(real_ec, name)

    ecp = EcProxy("simec")

    def generate_private_key(curve, backend=None):
        # 1 <= v < 2^(bits-1) < group order for the three NIST curves
        bits = curve.key_size - 1
        v = int.from_bytes(sim_urandom((bits + 7) // 8 + 1), "big") & ((1 << bits) - 1)
        return real_ec.derive_private_key(v | 1, curve)

    def ECDSA(algorithm, deterministic_signing=True):
        return real_ec.ECDSA(algorithm, deterministic_signing=True)

    ecp.generate_private_key = generate_private_key
    ecp.ECDSA = ECDSA

    def setm(modname, attr, val):
        m = mods.get(modname)
        if m is not None and hasattr(m, attr):
            saved.append((m, attr, getattr(m, attr)))
            setattr(m, attr, val)

    setm("paramiko.kex_curve25519", "X25519PrivateKey", X25519PrivateKeyProxy)
    setm("paramiko.kex_ecdh_nist", "ec", ecp)
    setm("paramiko.ecdsakey", "ec", ecp)


# ---------------------------------------------------------------- install
_saved = []
_installed = False


def install():
    """Rebind threading/time/os in every loaded paramiko module."""
    global _installed
    if _installed:
        return
    import logging
    import paramiko  # noqa: F401 -- make sure everything is loaded
    import paramiko.proxy  # noqa
    import paramiko.agent  # noqa
    mods = {k: v for k, v in sys.modules.items()
            if (k == "paramiko" or k.startswith("paramiko.")) and v is not None}
    for name, m in sorted(mods.items()):
        d = m.__dict__
        if d.get("threading") is _rt:
            _saved.append((m, "threading", _rt))
            m.threading = simthreading
        if d.get("time") is _real_time:
            _saved.append((m, "time", _real_time))
            m.time = simtime
        if d.get("os") is _real_os:
            _saved.append((m, "os", _real_os))
            m.os = simos
    _install_crypto(mods, _saved)
    core.patch_threads()
    logging.disable(logging.CRITICAL)
    _old_hook = sys.unraisablehook

    def hook(unraisable):
        if isinstance(unraisable.exc_value, SimAbort):
            return  # a finaliser interrupted by teardown
        _old_hook(unraisable)

    sys.unraisablehook = hook
    _installed = True


def uninstall():
    global _installed
    import logging
    for m, attr, val in reversed(_saved):
        setattr(m, attr, val)
    del _saved[:]
    core.unpatch_threads()
    logging.disable(logging.NOTSET)
    _installed = False
