"""Self-tests: determinism (same seed => same digest, across interpreters and
hash seeds) and sensitivity (mutant patches must be caught).  DESIGN section 8."""
import glob
import json
import os
import shutil
import subprocess
import sys
import tempfile
import time

from . import runner

VERIF = runner.VERIF


def all_checks():
    return sorted(os.path.basename(p)[:-3].upper()
                  for p in glob.glob(os.path.join(VERIF, "checks", "c[0-9]*.py")))


def digests(pid, seeds):
    mod = runner.load_check(pid)
    out = []
    for s in seeds:
        r = runner.run_one(mod, s)
        out.append((s, r["status"], r["digest"], r["steps"], r["nchoices"]))
    return out


def determinism(pids, nseeds, base):
    bad = 0
    for pid in pids:
        seeds = [base * runner.SEED_MULT + i for i in range(nseeds)]
        res = []
        for hs in ("1", "4242"):
            env = dict(os.environ, PYTHONHASHSEED=hs)
            p = subprocess.run([os.path.join(VERIF, "check"), "selftest-digests", pid,
                                str(base), str(nseeds)], env=env, capture_output=True, text=True,
                               timeout=3600)
            if p.returncode != 0:
                print("selftest-determinism %s: child failed\n%s" % (pid, p.stdout[-2000:] + p.stderr[-2000:]))
                bad += 1
                res.append(None)
                continue
            res.append(json.loads(p.stdout.strip().splitlines()[-1]))
        if None in res:
            continue
        a, b = res
        diffs = [(x, y) for x, y in zip(a["first"], b["first"]) if x != y]
        again = [(x, y) for x, y in zip(a["first"], a["second"]) if x != y]
        status = "ok" if not diffs and not again else "NONDETERMINISTIC"
        print("selftest-determinism %s: %d seeds x (2 in-process, 2 interpreters/hash seeds): %s"
              % (pid, nseeds, status))
        for x, y in (diffs + again)[:5]:
            print("   ", x, "!=", y)
        if diffs or again:
            bad += 1
    return 2 if bad else 0


def digests_main(pid, base, n):
    seeds = [base * runner.SEED_MULT + i for i in range(n)]
    first = digests(pid, seeds)
    second = digests(pid, seeds)
    print(json.dumps({"first": first, "second": second}))
    return 0


def make_scratch(patch):
    repo = os.environ.get("VERIF_REPO", "/repo")
    tmp = tempfile.mkdtemp(prefix="verif-mut-")
    shutil.copytree(os.path.join(repo, "paramiko"), os.path.join(tmp, "repo", "paramiko"),
                    ignore=shutil.ignore_patterns("__pycache__"))
    if patch:
        p = subprocess.run(["patch", "-p1", "-s", "-d", os.path.join(tmp, "repo"), "-i",
                            os.path.abspath(patch)], capture_output=True, text=True)
        if p.returncode != 0:
            shutil.rmtree(tmp, ignore_errors=True)
            raise RuntimeError("patch %s does not apply: %s" % (patch, p.stdout + p.stderr))
    return tmp


def run_against(tmp, pid, tier="quick", seed=None, timeout=1800):
    env = dict(os.environ, VERIF_REPO=os.path.join(tmp, "repo"), VERIF_OUT=os.path.join(tmp, "out"))
    if seed is not None:
        env["VERIF_SEED"] = str(seed)
    t0 = time.time()
    p = subprocess.run([os.path.join(VERIF, "check"), pid, "--tier", tier], env=env,
                       capture_output=True, text=True, timeout=timeout)
    return p.returncode, p.stdout + p.stderr, time.time() - t0


def sensitivity(patches):
    """Each patch file name starts with the property id(s) it must be caught by:
    C24-xxx.diff or seeded/<name>/patch.diff with meta.json {"property": ...}."""
    failed = 0
    for patch in patches:
        base = os.path.basename(patch)
        if base == "patch.diff":
            meta = json.load(open(os.path.join(os.path.dirname(patch), "meta.json")))
            pids = meta["property"] if isinstance(meta["property"], list) else [meta["property"]]
            pids = pids + [x for x in meta.get("also_checked_by", []) if x not in pids]
            label = os.path.basename(os.path.dirname(patch))
        else:
            pids = [base.split("-")[0]]
            label = base
        try:
            tmp = make_scratch(patch)
        except RuntimeError as e:
            print("sensitivity %s: SKIP (%s)" % (label, e))
            failed += 1
            continue
        try:
            caught = []
            for pid in pids:
                if not os.path.exists(os.path.join(VERIF, "checks", pid.lower() + ".py")):
                    continue
                rc, out, dt = run_against(tmp, pid)
                vio = [l for l in out.splitlines() if l.startswith("VIOLATION")]
                fps = [l.strip() for l in out.splitlines() if l.strip().startswith("fingerprint:")]
                if rc == 1 and vio:
                    caught.append((pid, fps[:2], dt))
                elif rc == 2:
                    print("sensitivity %s: %s harness error\n%s" % (label, pid, out[-1500:]))
            if caught:
                print("sensitivity %s: CAUGHT by %s" % (label, "; ".join(
                    "%s in %.0fs %s" % (p, dt, f) for p, f, dt in caught)))
            else:
                print("sensitivity %s: MISSED (checked %s)" % (label, pids))
                failed += 1
        finally:
            shutil.rmtree(tmp, ignore_errors=True)
    return 1 if failed else 0


def main(cmd, args, seed, jobs):
    if cmd == "selftest-digests":
        return digests_main(args[0], int(args[1]), int(args[2]))
    if cmd == "selftest-determinism":
        n = 30
        if "-n" in args:
            i = args.index("-n")
            n = int(args[i + 1])
            args = args[:i] + args[i + 2:]
        pids = [a for a in args if not a.startswith("-")] or all_checks()
        return determinism(pids, n, seed)
    if cmd == "selftest-sensitivity":
        patches = [a for a in args if not a.startswith("-")]
        if not patches:
            patches = sorted(glob.glob(os.path.join(VERIF, "mutants", "*.diff")) +
                             glob.glob(os.path.join(VERIF, "seeded", "*", "patch.diff")))
        return sensitivity(patches)
    print("unknown selftest", cmd)
    return 2
