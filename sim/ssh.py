"""LINK/CHAN engine helpers: keys, observing packetizer, scripted server,
transport pair over a simulated Link.  Everything under test is real paramiko
code; this file only wires it and records what it does."""
import os
import threading as _rt

import paramiko
from paramiko import Transport, ServerInterface, AUTH_SUCCESSFUL, AUTH_FAILED
from paramiko.common import OPEN_SUCCEEDED
from paramiko.packet import Packetizer

from . import core
from .net import Link

KEYDIR = os.path.join(os.path.dirname(os.path.dirname(os.path.abspath(__file__))), "keys")

_keys = {}


def key(name):
    """name: rsa1 rsa2 ecdsa256_1 ecdsa256_2 ecdsa384_1 ecdsa521_1 ed25519_1 ed25519_2"""
    k = _keys.get(name)
    if k is None:
        path = os.path.join(KEYDIR, name + ".key")
        if name.startswith("rsa"):
            k = paramiko.RSAKey.from_private_key_file(path)
        elif name.startswith("ecdsa"):
            k = paramiko.ECDSAKey.from_private_key_file(path)
        else:
            k = paramiko.Ed25519Key.from_private_key_file(path)
        _keys[name] = k
    return k


HOSTKEY_NAMES = ("rsa1", "ecdsa256_1", "ecdsa384_1", "ecdsa521_1", "ed25519_1")

_task_local = _rt.local()


class ObservingPacketizer(Packetizer):
    """Records plaintext of every message in wire order (tx) and delivery
    order (rx).  Adds nothing to the byte stream."""

    obs_side = "?"

    def send_message(self, data):
        _task_local.pending = data.asbytes()
        try:
            Packetizer.send_message(self, data)
        finally:
            _task_local.pending = None

    def write_all(self, out):
        p = getattr(_task_local, "pending", None)
        if p is not None:
            _task_local.pending = None
            sim = core.CURRENT
            if sim is not None and sim.holder():
                seq = sim.record("tx", self.obs_side, p[0], len(p))
                log = self.obs_log
                if log is not None:
                    log.append((seq, sim.now, self.obs_side, "tx", p[0], p))
                hook = self.obs_tx_hook
                if hook is not None:
                    hook(self, p)
        return Packetizer.write_all(self, out)

    def read_message(self):
        ptype, m = Packetizer.read_message(self)
        sim = core.CURRENT
        if sim is not None and sim.holder():
            p = bytes([ptype]) + m.asbytes()      # full payload, type byte first (as for tx)
            seq = sim.record("rx", self.obs_side, ptype, len(p))
            log = self.obs_log
            if log is not None:
                log.append((seq, sim.now, self.obs_side, "rx", ptype, p))
            hook = self.obs_rx_hook
            if hook is not None:
                hook(self, ptype, p)
        return ptype, m

    obs_log = None
    obs_tx_hook = None
    obs_rx_hook = None


def observing_packetizer(side, log, base=ObservingPacketizer, **attrs):
    d = {"obs_side": side, "obs_log": log}
    d.update(attrs)
    return type("Obs_" + side, (base,), d)


class ScriptedServer(ServerInterface):
    """Accepts user 'alice' with password 'pw' / the given keys; session
    channels, exec/shell/subsystem/pty accepted.  Every callback is logged."""

    def __init__(self, sim, allowed_keys=(), log=None):
        self.sim = sim
        self.allowed_keys = list(allowed_keys)
        self.log = log if log is not None else []

    def _rec(self, *a):
        self.log.append((self.sim.seq, self.sim.now) + a)

    def get_allowed_auths(self, username):
        return "password,publickey"

    def check_auth_none(self, username):
        self._rec("auth_none", username)
        return AUTH_FAILED

    def check_auth_password(self, username, password):
        self._rec("auth_password", username, password)
        if username == "alice" and password == "pw":
            return AUTH_SUCCESSFUL
        return AUTH_FAILED

    def check_auth_publickey(self, username, key):
        self._rec("auth_publickey", username, key.get_name())
        if username == "alice" and any(key == k for k in self.allowed_keys):
            return AUTH_SUCCESSFUL
        return AUTH_FAILED

    def check_channel_request(self, kind, chanid):
        self._rec("channel_request", kind, chanid)
        return OPEN_SUCCEEDED

    def check_channel_exec_request(self, channel, command):
        self._rec("exec", channel.get_id(), command)
        return True

    def check_channel_shell_request(self, channel):
        self._rec("shell", channel.get_id())
        return True

    def check_channel_pty_request(self, channel, term, width, height, pw, ph, modes):
        self._rec("pty", channel.get_id())
        return True

    def check_channel_subsystem_request(self, channel, name):
        self._rec("subsystem", channel.get_id(), name)
        return ServerInterface.check_channel_subsystem_request(self, channel, name)

    def check_channel_env_request(self, channel, name, value):
        self._rec("env", channel.get_id(), name, value)
        return True

    def check_global_request(self, kind, msg):
        self._rec("global_request", kind)
        return True

    def check_port_forward_request(self, address, port):
        self._rec("port_forward", address, port)
        return port or 4242

    def cancel_port_forward_request(self, address, port):
        self._rec("cancel_port_forward", address, port)


class Pair:
    """A client and a server Transport on one Link."""

    def __init__(self, sim, link=None, host_keys=("rsa1",), client_kw=None, server_kw=None,
                 server=None, client_cls=Transport, server_cls=Transport,
                 client_pk=None, server_pk=None, observe=True, plog=None):
        self.sim = sim
        self.link = link or Link(sim)
        self.plog = plog if plog is not None else ([] if observe else None)
        ckw = dict(client_kw or {})
        skw = dict(server_kw or {})
        if observe:
            ckw.setdefault("packetizer_class", client_pk or observing_packetizer("c", self.plog))
            skw.setdefault("packetizer_class", server_pk or observing_packetizer("s", self.plog))
        self.tc = client_cls(self.link.a, **ckw)
        self.ts = server_cls(self.link.b, **skw)
        self.tc._sim_name = "T-client"
        self.ts._sim_name = "T-server"
        for hk in host_keys:
            self.ts.add_server_key(key(hk) if isinstance(hk, str) else hk)
        self.server = server or ScriptedServer(sim)
        self.host_keys = host_keys

    def start(self, timeout=None):
        """start_server (non-blocking, with event) then start_client (blocking)."""
        from .shims import Event
        self.server_event = Event()
        self.ts.start_server(event=self.server_event, server=self.server)
        self.tc.start_client(timeout=timeout)

    def wait_server(self, timeout=30.0):
        self.server_event.wait(timeout)
        return self.ts.is_active() and self.ts.initial_kex_done

    def auth_password(self, user="alice", pw="pw"):
        return self.tc.auth_password(user, pw)

    def close(self):
        for t in (self.tc, self.ts):
            try:
                t.close()
            except Exception:
                pass


def quiesce(sim, links=(), tasks=(), settle=0.25, limit=120.0):
    """Sleep (virtual) until the given tasks are done, nothing is in flight and
    no history event was recorded for two consecutive settle periods.
    Returns True if quiescent, False if the limit expired."""
    end = sim.now + limit
    calm = 0
    last = sim.nevents
    while sim.now < end:
        sim.sleep(settle)
        busy = any(t.state != core.DONE for t in tasks) or any(not l.quiet() for l in links)
        if busy or sim.nevents != last:
            calm = 0
        else:
            calm += 1
            if calm >= 2:
                return True
        last = sim.nevents
    return False


def connected_pair(sim, latency=(0.0, 0.0), jitter=0.0, auth=True, **kw):
    link = kw.pop("link", None) or Link(sim, latency=latency, jitter=jitter)
    p = Pair(sim, link=link, **kw)
    p.start()
    p.wait_server()
    if auth:
        p.auth_password()
    return p


def tap_transport(base, tap, side):
    """Transport subclass reporting (K, H) and the auth trigger to a LinkTap."""

    class TapTransport(base):
        def _set_K_H(self, k, h):
            tap.note_kh(side, k, h)
            return base._set_K_H(self, k, h)

        def _auth_trigger(self):
            r = base._auth_trigger(self)
            tap.note_auth(side)
            return r

        def _parse_kex_init(self, m):
            r = base._parse_kex_init(self, m)
            cls = type(self.kex_engine)
            names = [n for n, c in self._kex_info.items() if c is cls]
            tap.agreed_kex[side].append(names[0] if len(names) == 1 else None)
            return r

    TapTransport.__name__ = "TapTransport%d" % side
    return TapTransport


_moduli = []


def modulus_pack():
    if not _moduli:
        from paramiko.primes import ModulusPack
        m = ModulusPack()
        m.read_file(os.path.join(KEYDIR, "moduli"))
        _moduli.append(m)
    return _moduli[0]


def tapped_pair(sim, link=None, **kw):
    """Pair whose link is observed by a LinkTap (attribute .tap)."""
    from .wiretap import LinkTap
    link = link or Link(sim)
    tap = LinkTap(link, sim)
    p = Pair(sim, link=link, client_cls=tap_transport(kw.pop("client_cls", Transport), tap, 0),
             server_cls=tap_transport(kw.pop("server_cls", Transport), tap, 1), **kw)
    p.tap = tap
    p.ts._modulus_pack = modulus_pack()
    return p


KEX_NAMES = tuple(Transport._preferred_kex)
KEX_COST = {  # rough relative wall cost, used to weight choices
    "curve25519-sha256@libssh.org": 1, "ecdh-sha2-nistp256": 1, "ecdh-sha2-nistp384": 2,
    "ecdh-sha2-nistp521": 3, "diffie-hellman-group1-sha1": 2, "diffie-hellman-group14-sha1": 5,
    "diffie-hellman-group14-sha256": 5, "diffie-hellman-group-exchange-sha1": 5,
    "diffie-hellman-group-exchange-sha256": 5, "diffie-hellman-group16-sha512": 14,
}
HOSTKEY_ALGOS = {  # host key algorithm name -> harness key file
    "ssh-ed25519": "ed25519_1", "ecdsa-sha2-nistp256": "ecdsa256_1", "ecdsa-sha2-nistp384": "ecdsa384_1",
    "ecdsa-sha2-nistp521": "ecdsa521_1", "rsa-sha2-512": "rsa1", "rsa-sha2-256": "rsa1", "ssh-rsa": "rsa1",
}


def configure(t, kex=None, cipher=None, mac=None, comp=None, hostkey_algo=None):
    """Restrict a transport's preferences through its public SecurityOptions."""
    o = t.get_security_options()
    if kex is not None:
        o.kex = [kex] if isinstance(kex, str) else list(kex)
    if cipher is not None:
        o.ciphers = [cipher] if isinstance(cipher, str) else list(cipher)
    if mac is not None:
        o.digests = [mac] if isinstance(mac, str) else list(mac)
    if comp is not None:
        o.compression = [comp] if isinstance(comp, str) else list(comp)
    if hostkey_algo is not None:
        o.key_types = [hostkey_algo] if isinstance(hostkey_algo, str) else list(hostkey_algo)


def echo_round(sim, ch, sch, n1, n2):
    """client sends n1 bytes, server reads them and answers n2 bytes; returns ok."""
    d1 = sim.payload.randbytes(n1)
    d2 = sim.payload.randbytes(n2)
    ch.sendall(d1)
    got = b""
    while len(got) < n1:
        x = sch.recv(65536)
        if not x:
            break
        got += x
    sch.sendall(d2)
    back = b""
    while len(back) < n2:
        x = ch.recv(65536)
        if not x:
            break
        back += x
    return got == d1 and back == d2


class ByzantinePacketizer(ObservingPacketizer):
    """Adversary-side packetizer: a real one (framing, keys, sequence numbers
    stay valid) whose outgoing plaintext messages pass through `mutate_out`
    and whose incoming messages can be swallowed by `filter_in`.  Only ever
    given to the ADVERSARY transport; the victim runs unmodified code."""

    mutate_out = None    # fn(packetizer, payload bytes) -> list of payload bytes to send instead
    filter_in = None     # fn(packetizer, ptype, payload bytes) -> True to swallow
    frame_out = None     # fn(packetizer, payload bytes, cleartext packet bytes) -> cleartext packet bytes

    def send_message(self, data):
        f = self.mutate_out
        if f is None:
            return ObservingPacketizer.send_message(self, data)
        from paramiko import Message
        for q in f(self, data.asbytes()):
            if len(q) == 0:
                m = _EmptyMessage()      # a packet without payload (not even a type byte)
            else:
                m = Message()
                m.add_bytes(q)
            ObservingPacketizer.send_message(self, m)

    def _build_packet(self, payload):
        pkt = ObservingPacketizer._build_packet(self, payload)
        f = self.frame_out
        return f(self, payload, pkt) if f is not None else pkt

    def read_message(self):
        while True:
            ptype, m = ObservingPacketizer.read_message(self)
            f = self.filter_in
            if f is not None and f(self, ptype, bytes([ptype]) + m.asbytes()):
                continue
            return ptype, m


class _EmptyBytes(bytes):
    """b"" that survives Packetizer.send_message's look at the type byte (used for its debug log only)."""

    def __getitem__(self, i):
        return 0 if isinstance(i, int) else bytes.__getitem__(self, i)


class _EmptyMessage:
    def asbytes(self):
        return _EmptyBytes()


def byzantine_packetizer(side, log, mutate_out=None, filter_in=None, frame_out=None):
    d = {"obs_side": side, "obs_log": log}
    if frame_out is not None:
        d["frame_out"] = staticmethod(frame_out)
    if mutate_out is not None:
        d["mutate_out"] = staticmethod(mutate_out)
    if filter_in is not None:
        d["filter_in"] = staticmethod(filter_in)
    return type("Byz_" + side, (ByzantinePacketizer,), d)


def strict_marker_only_initially(base):
    """ADVERSARY-side Transport that behaves like OpenSSH: the kex-strict-*-v00 marker is put into the INITIAL KEXINIT
    only ("only valid in the initial SSH2_MSG_KEXINIT and MUST be ignored in subsequent ones"), while strict mode, once
    agreed, stays in force for the whole connection.  The re-key KEXINIT is rewritten before it is recorded for the
    exchange hash, so the session stays consistent."""
    from paramiko import Message
    from .wiretap import Reader

    class MarkerOnce(base):
        def _send_message(self, data):
            b = data.asbytes()
            if b[:1] == b"\x14" and self.initial_kex_done and getattr(self, "local_kex_init", None) == b:
                r = Reader(b)
                r.byte()
                cookie = bytes(r.d[r.i:r.i + 16])
                r.i += 16
                names = [n for n in r.namelist() if not n.startswith("kex-strict-")]
                tail = r.rest()
                x = ",".join(names).encode()
                out = bytes([20]) + cookie + len(x).to_bytes(4, "big") + x + tail
                self.local_kex_init = self._latest_kex_init = out
                data = Message()
                data.add_bytes(out)
                core.CURRENT.fault("rekey_kexinit_without_strict_marker")
            return base._send_message(self, data)

    MarkerOnce.__name__ = "MarkerOnce"
    return MarkerOnce


def asymmetric_client(base, enc_c2s, enc_s2c, mac_c2s, mac_s2c):
    """ADVERSARY-side client Transport whose KEXINIT carries different cipher / MAC lists for the two directions
    (legal per RFC 4253 7.1, never produced by paramiko itself).  The KEXINIT is rewritten before it is recorded for
    the exchange hash, and after negotiation this side adopts what an RFC-conforming server must have picked, so the
    session is consistent and the unmodified SERVER (the victim) ends up with different algorithms per direction."""
    from paramiko import Message
    from .wiretap import Reader

    class AsymClient(base):
        def _send_message(self, data):
            b = data.asbytes()
            if b[:1] == b"\x14" and getattr(self, "local_kex_init", None) == b:
                r = Reader(b)
                r.byte()
                cookie = bytes(r.d[r.i:r.i + 16])
                r.i += 16
                lists = [r.namelist() for _ in range(10)]
                tail = r.rest()
                lists[2], lists[3] = [enc_c2s], [enc_s2c]
                lists[4], lists[5] = [mac_c2s], [mac_s2c]
                out = bytes([20]) + cookie
                for l in lists:
                    x = ",".join(l).encode()
                    out += len(x).to_bytes(4, "big") + x
                out += tail
                self.local_kex_init = self._latest_kex_init = out
                data = Message()
                data.add_bytes(out)
            return base._send_message(self, data)

        def _parse_kex_init(self, m):
            r = base._parse_kex_init(self, m)
            self.local_cipher, self.remote_cipher = enc_c2s, enc_s2c
            self.local_mac, self.remote_mac = mac_c2s, mac_s2c
            return r

    AsymClient.__name__ = "AsymClient"
    return AsymClient
