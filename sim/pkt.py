"""PKT engine: two un-started Transports used only as keyed Packetizer
endpoints over one simulated link.  A writer task plays the sending transport
thread, a reader task the receiving one; key switches happen at NEWKEYS
boundaries through the real Transport._activate_outbound/_activate_inbound."""
import hashlib
import types

from paramiko import Transport, Message
from paramiko.ssh_exception import SSHException

from . import core, wiretap
from .core import Violation
from .net import Link, NetKnobs

CIPHER_NAMES = tuple(Transport._cipher_info.keys())
MAC_NAMES = tuple(Transport._mac_info.keys())
COMP_NAMES = tuple(Transport._compression_info.keys())
HASHES = {"sha1": hashlib.sha1, "sha256": hashlib.sha256, "sha384": hashlib.sha384,
          "sha512": hashlib.sha512}


def suites():
    """All (cipher, mac) pairs; for AEAD ciphers the MAC is irrelevant -> one entry."""
    out = []
    for c in CIPHER_NAMES:
        if Transport._cipher_info[c].get("is_aead"):
            out.append((c, MAC_NAMES[0]))
        else:
            for m in MAC_NAMES:
                out.append((c, m))
    return out


class KeySet:
    def __init__(self, sim, cipher, mac, comp, hashname, strict):
        self.cipher, self.mac, self.comp, self.hashname, self.strict = cipher, mac, comp, hashname, strict
        self.K = int.from_bytes(sim.entropy.randbytes(sim.entropy.choice((1, 31, 32, 33, 128, 256))), "big") or 1
        self.H = sim.entropy.randbytes(HASHES[hashname]().digest_size)

    def describe(self):
        return "%s/%s/%s/%s%s" % (self.cipher, self.mac, self.comp, self.hashname,
                                  "/strict" if self.strict else "")


def _apply_common(t, ks):
    t.kex_engine = types.SimpleNamespace(hash_algo=HASHES[ks.hashname])
    t._set_K_H(ks.K, ks.H)
    t.agreed_on_strict_kex = ks.strict


def apply_out(t, ks):
    t.local_cipher, t.local_mac, t.local_compression = ks.cipher, ks.mac, ks.comp
    _apply_common(t, ks)
    t._activate_outbound()       # sends NEWKEYS under the old keys, then switches


def apply_in(t, ks):
    t.remote_cipher, t.remote_mac, t.remote_compression = ks.cipher, ks.mac, ks.comp
    _apply_common(t, ks)
    t._activate_inbound()


def net_knobs(sim, allow_faults=True):
    ka, kb = NetKnobs(), NetKnobs()
    if allow_faults:
        kb.p_frag = (0.0, 0.2, 0.7, 1.0)[sim.choose(4)]
        kb.frag_one = sim.choose(4) == 3
        kb.p_rx_timeout = (0.0, 0.0, 0.1)[sim.choose(3)]
        kb.eagain = bool(sim.choose(2))
        ka.p_short = (0.0, 0.2, 0.7)[sim.choose(3)]
        ka.p_tx_timeout = (0.0, 0.0, 0.1)[sim.choose(3)]
        ka.eagain = bool(sim.choose(2))
    return ka, kb


def run_stream(sim, script, authenticated=False, allow_faults=True, latency=0.0):
    """script: list of ('msg', bytes) | ('keys', KeySet).  Returns a dict with
    what the reader got, the wire bytes and the keysets, for the oracles."""
    ka, kb = net_knobs(sim, allow_faults)
    link = Link(sim, "sender", "receiver", latency=(latency, latency), knobs_a=ka, knobs_b=kb)
    ts = Transport(link.a)
    tr = Transport(link.b)
    tr.server_mode = True
    ts.authenticated = tr.authenticated = authenticated
    keysets = [x[1] for x in script if x[0] == "keys"]
    received = []
    state = {"reader_exc": None, "writer_exc": None, "eof_at": None}

    def writer():
        try:
            for kind, v in script:
                if kind == "msg":
                    m = Message()
                    m.add_bytes(v)
                    ts.packetizer.send_message(m)
                else:
                    apply_out(ts, v)
            link.a.close()
        except Exception as e:  # noqa
            state["writer_exc"] = e

    def reader():
        ki = 0
        try:
            while True:
                ptype, m = tr.packetizer.read_message()
                payload = bytes([ptype]) + m.asbytes()
                received.append(payload)
                if ptype == 21:
                    apply_in(tr, keysets[ki])
                    ki += 1
        except EOFError as e:
            state["reader_exc"] = e
            state["eof_at"] = len(received)
        except Exception as e:  # noqa
            state["reader_exc"] = e

    tw = sim.spawn(writer, "writer")
    trd = sim.spawn(reader, "reader")
    deadline = sim.now + 600.0
    while (tw.state != core.DONE or trd.state != core.DONE) and sim.now < deadline:
        sim.sleep(0.5)
    state["finished"] = tw.state == core.DONE and trd.state == core.DONE
    state["received"] = received
    state["wire"] = b"".join(seg for _, _, seg in link.wire[0])
    state["keysets"] = keysets
    state["link"] = link
    return state


def expected_stream(script):
    out = []
    for kind, v in script:
        out.append(v if kind == "msg" else b"\x15")
    return out


def tap_decode(wire, keysets, authenticated=False):
    """Decode the sender's byte stream with the independent codec, keyed by
    its own RFC 7.2 derivation (client->server letters A, C, E)."""
    d = wiretap.Direction()
    packets = []
    ki = 0
    sid = keysets[0].H if keysets else None
    pos = 0
    # feed incrementally so key switches happen at NEWKEYS boundaries
    d.buf += wire
    while True:
        p = d._one()
        if p is None:
            break
        packets.append(p)
        if p.payload[:1] == b"\x15":
            ks = keysets[ki]
            ki += 1
            neg = {"kex": None, "enc_c2s": ks.cipher, "mac_c2s": ks.mac, "comp_c2s": ks.comp,
                   "strict": ks.strict}
            kind, klen, ivlen, block = wiretap.CIPHERS[ks.cipher]
            iv = wiretap.derive(ks.K, ks.H, sid, "A", ivlen, ks.hashname)
            key = wiretap.derive(ks.K, ks.H, sid, "C", klen, ks.hashname)
            mk = None if kind == "gcm" else wiretap.derive(ks.K, ks.H, sid, "E",
                                                          wiretap.MACS[ks.mac][1], ks.hashname)
            d.set_keys(ks.cipher, ks.mac, ks.comp, key, iv, mk, ks.strict,
                       comp_now=(ks.comp != "zlib@openssh.com" or authenticated))
    return packets, bytes(d.buf)


BOUNDARY_LENGTHS = (1, 2, 3, 4, 5, 7, 8, 9, 11, 12, 13, 15, 16, 17, 23, 24, 25, 31, 32, 33, 63, 64,
                    65, 255, 256, 257, 1023, 4095, 4096, 32764, 32765, 32766, 32767, 32768, 32769,
                    32770, 32771, 32772, 35000, 65535, 65536, 70000)


def random_message(sim, big_ok=True):
    k = sim.choose(10)
    if k < 5:
        n = 1 + sim.choose(300)
    elif k < 8 or not big_ok:
        n = BOUNDARY_LENGTHS[sim.choose(30)]
    else:
        n = BOUNDARY_LENGTHS[sim.choose(len(BOUNDARY_LENGTHS))]
    t = 1 + sim.choose(255)
    if t == 21:
        t = 94
    if n == 1:
        return bytes([t])
    style = sim.choose(3)
    if style == 0:
        body = sim.payload.randbytes(n - 1)
    elif style == 1:
        body = bytes([sim.payload.randrange(256)]) * (n - 1)   # compressible
    else:
        body = (sim.payload.randbytes(7) * ((n // 7) + 1))[:n - 1]
    return bytes([t]) + body
